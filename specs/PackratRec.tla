----------------------------- MODULE PackratRec -----------------------------
(***************************************************************************)
(* The left-recursion guard of nom-recursive 0.5 (#[recursive_parser])     *)
(* together with the packrat memo of nom-packrat 0.7 (#[packrat_parser]),  *)
(* in the order the parser functions of sv-parser-parser carry them:       *)
(*                                                                         *)
(*     #[recursive_parser]   outermost: runs first                         *)
(*     #[packrat_parser]     then the memo lookup / body / memo insert     *)
(*                                                                         *)
(* RecursiveInfo travels INSIDE the input span (LocatedSpan.extra):        *)
(*   ri = [ptr, flags]   ptr = address of the position the flags belong to *)
(*                       flags = set of recursive rules entered at ptr     *)
(* Entering a recursive rule n at position pos:                            *)
(*   if ri.ptr # pos: flags := {}, ptr := pos                              *)
(*   if n in flags: fail ("recursion detected") - nothing is memoised      *)
(*   else flags := flags + {n}; the body runs on the span that carries it  *)
(* Because ri is part of the span, backtracking rewinds it (an alternative *)
(* starts from the caller's span), and a SUCCESSFUL callee hands its ri on *)
(* to whatever is parsed next (the remaining span is cut from the callee's *)
(* span).  The memo table is thread-local state and is not rewound.        *)
(*                                                                         *)
(* The memo key of the code is <<rule, position, in_directive>> - the      *)
(* flags are not part of it.  A memoised rule X that fails at position p   *)
(* only because a recursive rule R, entered at p further up, is met again  *)
(* inside X stores "X fails at p".  A later visit of X at p OUTSIDE R finds*)
(* that entry (and fails) or, if the entry was evicted meanwhile, evaluates*)
(* X again (and succeeds): the result depends on the capacity.  This is    *)
(* known finding D15 of property C17; FlagsInKey = TRUE is the repair that *)
(* was measured to be > 100 times slower on the corpus and therefore left. *)
(***************************************************************************)
EXTENDS Packrat

CONSTANT FlagsInKey

NoRI == [ptr |-> 0, flags |-> {}]
Enter(ri, pos) == IF ri.ptr # pos THEN [ptr |-> pos, flags |-> {}] ELSE ri
EffFlags(ri, pos) == IF ri.ptr = pos THEN ri.flags ELSE {}

\* rules: [e, memo, rec];  result: [ok, pos, ri, st]
RECURSIVE EvalR(_, _, _, _, _, _)
EvalR(g, inp, e, pos, ri, st) ==
  CASE e.op = "eps"   -> [ok |-> TRUE, pos |-> pos, ri |-> ri, st |-> st]
    [] e.op = "tok"   -> IF pos <= Len(inp) /\ inp[pos] = e.a THEN [ok |-> TRUE, pos |-> pos + 1, ri |-> ri, st |-> st]
                         ELSE [ok |-> FALSE, pos |-> pos, ri |-> ri, st |-> st]
    [] e.op = "seq"   -> LET r1 == EvalR(g, inp, e.a, pos, ri, st) IN
                         IF ~r1.ok THEN r1 ELSE EvalR(g, inp, e.b, r1.pos, r1.ri, r1.st)      \* the remaining span carries the callee's ri
    [] e.op = "alt"   -> LET r1 == EvalR(g, inp, e.a, pos, ri, st) IN
                         IF r1.ok THEN r1 ELSE EvalR(g, inp, e.b, pos, ri, r1.st)             \* span (position AND ri) rewinds, the table does not
    [] e.op = "call"  ->
         LET rule == g[e.a]
             ri1 == IF rule.rec THEN Enter(ri, pos) ELSE ri
         IN IF rule.rec /\ e.a \in ri1.flags
            THEN [ok |-> FALSE, pos |-> pos, ri |-> ri, st |-> st]                              \* recursion detected: early return, no memo traffic
            ELSE LET ri2 == IF rule.rec THEN [ri1 EXCEPT !.flags = @ \cup {e.a}] ELSE ri1 IN
                 IF ~rule.memo THEN EvalR(g, inp, rule.e, pos, ri2, st)
                 ELSE LET k == IF FlagsInKey THEN <<e.a, pos, EffFlags(ri2, pos)>> ELSE <<e.a, pos>>
                          hit == Lookup(st.memo, k) IN
                      IF hit # <<>> THEN [ok |-> hit[1][1], pos |-> hit[1][2], ri |-> ri2, st |-> st]   \* the remaining span is cut from the current one
                      ELSE LET r == EvalR(g, inp, rule.e, pos, ri2, st) IN
                           [r EXCEPT !.st.memo = Insert(r.st.memo, k, <<r.ok, r.pos>>)]

ParseR(g, inp, size) == LET r == EvalR(g, inp, Call("S"), 1, NoRI, [memo |-> EmptyMemo(size), hid |-> 0])
                        IN <<r.ok, r.pos>>
\* the same grammar with every memo annotation removed: what the guarded PEG means without a table
NoMemo(g) == [n \in DOMAIN g |-> [g[n] EXCEPT !.memo = FALSE]]
TransparentR(g, inp, caps) == \A c \in caps : ParseR(g, inp, c) = ParseR(g, inp, 0)
MemoFree(g, inp, caps) == \A c \in caps \cup {0} : ParseR(g, inp, c) = ParseR(NoMemo(g), inp, 0)
=============================================================================
