SPECIFICATION Spec
CONSTANTS
  DevA = {}
  MaxLen = 6
INVARIANTS ClosedInv TrailingInv MinimalInv
CHECK_DEADLOCK FALSE
