---------------------------- MODULE MC_MacroBody ----------------------------
(* Model checking / generation wrapper for MacroBody: every body text up to MaxLen over the alphabet, *)
(* one formal x bound to AB (and, in the two-formal universe, the dollar formal x$ bound to C).       *)
(* MachineEqualsRef: the transcription of split_text + substitution yields the IEEE reading of every   *)
(* decided body.  Refutation configs switch one Dev on and must produce a counterexample.             *)
(* TransitionsSeen collects the <<control state, branch>> pairs (TLCSet register 1; workers 1) so the  *)
(* driver can report that the bound saturates the machine's transition relation.                       *)
EXTENDS MacroBody, Json
CONSTANTS MaxLen, Alphabet, Export, Formals
VARIABLE text
Init == text = <<>>
Next == Len(text) < MaxLen /\ \E c \in Alphabet : text' = Append(text, c)
Spec == Init /\ [][Next]_text
F1 == << <<<<"x">>, <<"A", "B">>>> >>
F2 == << <<<<"x">>, <<"A", "B">>>>, <<<<"x", "$">>, <<"C">>>> >>
MachineEqualsRef == Agree(text, Formals)
Decided == Ref(text, Formals).dec
\* sanity of the reference itself: nothing of an ordinary string literal changes, and a body without any active character is copied
PlainCopied == (\A k \in 1..Len(text) : text[k] \in {"y", " ", "+"}) => StripLead(Ref(text, Formals).out) = StripLead(text)
ExportInv == (Export /\ text # <<>>) => PrintT("REPLAY|" \o ToJson(text))
CoverInv == (Len(text) = MaxLen) => TLCSet(1, TLCGet(1) \cup Transitions(text))
ASSUME TLCSet(1, {})
CoverPost == PrintT("TRANSITIONS|" \o ToString(Cardinality(TLCGet(1))))
Alpha9 == {"x", "y", "$", " ", "\n", "\\", "\"", "/", "`"}
Alpha11 == Alpha9 \cup {"\r", "1"}
=============================================================================
