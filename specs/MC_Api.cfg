SPECIFICATION Spec
CONSTANTS
  Wiring = "faithful"
INVARIANT EntryPointsAgree
CHECK_DEADLOCK FALSE
