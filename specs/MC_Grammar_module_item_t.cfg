SPECIFICATION Spec
CONSTANTS
  Start = "module_item"
  Budget = 3
  Collapse = TRUE
  Export = TRUE
INVARIANT BudgetOk
INVARIANT IdsDistinct
INVARIANT ExportInv
CHECK_DEADLOCK FALSE
