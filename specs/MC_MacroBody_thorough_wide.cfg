SPECIFICATION Spec
CONSTANTS
  Dev = {}
  MaxLen = 6
  Alphabet <- Alpha11
  Export = FALSE
  Formals <- F2
INVARIANTS MachineEqualsRef PlainCopied
CHECK_DEADLOCK FALSE
