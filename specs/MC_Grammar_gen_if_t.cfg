SPECIFICATION Spec
CONSTANTS
  Start = "gen_if"
  Budget = 4
  Collapse = TRUE
  Export = TRUE
INVARIANT BudgetOk
INVARIANT IdsDistinct
INVARIANT ExportInv
CHECK_DEADLOCK FALSE
