------------------------------ MODULE Api_Trace ------------------------------
(* Trace validation of the entry-point equations: one record = all entry points called on one      *)
(* input for every flag vector.                                                                    *)
EXTENDS Api, Json, IOUtils
Rec == ndJsonDeserialize(IOEnv.TRACE)
JudgeC15(r) ==
  LET jd == JunkDisagreement(r.strict, r.junked) IN
  (IF r.strict.outcome \notin Outcomes \/ r.inc.outcome \notin Outcomes THEN <<"outcome is not Ok or a structured Error">> ELSE <<>>)
  \o (IF r.inc.outcome = "err" /\ r.inc.err[1] = "Parse" THEN <<"incomplete mode reports Error::Parse">> ELSE <<>>)
  \o (IF r.strict.outcome = "ok" /\ ~SameResult(r.strict, r.inc) THEN <<"incomplete mode differs from strict mode that accepts">> ELSE <<>>)
  \o (IF r.strict.outcome = "err" /\ r.strict.err[1] # "Parse" /\ r.inc.outcome = "err" /\ r.inc.err # r.strict.err THEN <<"preprocessor error differs between the modes">> ELSE <<>>)
  \o (IF \E i \in 1..Len(r.junked) : r.junked[i].outcome = "err" /\ r.junked[i].err[1] = "Parse" THEN <<"incomplete mode reports Error::Parse on a junk suffix">> ELSE <<>>)
  \o (IF jd # {} THEN <<"unparsable suffix changes the tree of the accepted part", ToString(CHOOSE i \in jd : TRUE)>> ELSE <<>>)

JudgeApi(r) ==
  LET ca == ClassAgreement(r.calls)
      ia == IncompleteAgreement(r.calls)
      ip == IncompleteNeverParseError(r.calls)
      ty == Typed(r.calls)
      Name(i) == r.calls[i].fn \o "(ign=" \o ToString(r.calls[i].ign) \o ",strip=" \o ToString(r.calls[i].strip) \o ",inc=" \o ToString(r.calls[i].inc) \o ")"
  IN (IF ty # {} THEN <<"outcome is not Ok or a structured Error", Name(CHOOSE i \in ty : TRUE)>> ELSE <<>>)
     \o (IF ca # {} THEN LET p == CHOOSE p \in ca : TRUE IN <<"entry points disagree", Name(p[1]), Name(p[2])>> ELSE <<>>)
     \o (IF r.c15 /\ ia # {} THEN LET p == CHOOSE p \in ia : TRUE IN <<"incomplete mode differs from strict mode that accepts", Name(p[1]), Name(p[2])>> ELSE <<>>)
     \o (IF r.c15 /\ ip # {} THEN <<"incomplete mode reports Error::Parse", Name(CHOOSE i \in ip : TRUE)>> ELSE <<>>)
\* ignore_include through every entry point (C10): no file is read, so no call can come back with an Include error,
\* and all calls of one family agree (a missing file and an existing one make no difference)
JudgeIgn(r) ==
  LET inc == {i \in 1..Len(r.calls) : r.calls[i].res.outcome = "err" /\ r.calls[i].res.err[1] = "Include"}
      dis == {i \in 2..Len(r.calls) : r.calls[i].fam = r.calls[1].fam /\ ~SameResult(r.calls[i].res, r.calls[1].res)}
  IN (IF inc # {} THEN <<"ignore_include: an include was followed", r.calls[CHOOSE i \in inc : TRUE].fn>> ELSE <<>>)
     \o (IF dis # {} THEN <<"ignore_include: result depends on the entry point or on whether the file exists", r.calls[CHOOSE i \in dis : TRUE].fn>> ELSE <<>>)

Judge(r) == CASE r.kind = "c15" -> JudgeC15(r)
              [] r.kind = "ign" -> JudgeIgn(r)
              [] r.kind = "badbyte" -> BadByteJudgement(r.file, r.off, r.res)
              [] r.kind = "delclose" -> DeletionJudgement(r.res)
              [] r.kind = "hist" -> HistoryJudgement(r.fresh, r.after)
              [] r.kind = "conc" -> ConcurrencyJudgement(r.solo, r.conc)
              [] r.kind = "typed" -> IF r.outcome \in Outcomes THEN <<>> ELSE <<"entry point did not return Ok or a structured Error", r.outcome, r.msg>>
              [] OTHER -> JudgeApi(r)

VARIABLES l, nbad
Init == l = 1 /\ nbad = 0
Next ==
  /\ l <= Len(Rec)
  /\ LET r == Rec[l]
         v == Judge(r)
     IN /\ IF v = <<>> THEN nbad' = nbad
           ELSE /\ PrintT("BAD|" \o r.id \o "|" \o ToString(v))
                /\ nbad' = nbad + 1
        /\ l' = l + 1
        /\ (l = Len(Rec) => PrintT("SUMMARY|" \o ToString(l) \o "|" \o ToString(nbad')))
Spec == Init /\ [][Next]_<<l, nbad>>
=============================================================================
