------------------------------ MODULE Api_Trace ------------------------------
(* Trace validation of the entry-point equations: one record = all entry points called on one      *)
(* input for every flag vector.                                                                    *)
EXTENDS Api, Json, IOUtils
Rec == ndJsonDeserialize(IOEnv.TRACE)
Judge(r) ==
  LET ca == ClassAgreement(r.calls)
      ia == IncompleteAgreement(r.calls)
      ip == IncompleteNeverParseError(r.calls)
      ty == Typed(r.calls)
      Name(i) == r.calls[i].fn \o "(ign=" \o ToString(r.calls[i].ign) \o ",strip=" \o ToString(r.calls[i].strip) \o ",inc=" \o ToString(r.calls[i].inc) \o ")"
  IN (IF ty # {} THEN <<"outcome is not Ok or a structured Error", Name(CHOOSE i \in ty : TRUE)>> ELSE <<>>)
     \o (IF ca # {} THEN LET p == CHOOSE p \in ca : TRUE IN <<"entry points disagree", Name(p[1]), Name(p[2])>> ELSE <<>>)
     \o (IF r.c15 /\ ia # {} THEN LET p == CHOOSE p \in ia : TRUE IN <<"incomplete mode differs from strict mode that accepts", Name(p[1]), Name(p[2])>> ELSE <<>>)
     \o (IF r.c15 /\ ip # {} THEN <<"incomplete mode reports Error::Parse", Name(CHOOSE i \in ip : TRUE)>> ELSE <<>>)
VARIABLES l, nbad
Init == l = 1 /\ nbad = 0
Next ==
  /\ l <= Len(Rec)
  /\ LET r == Rec[l]
         v == Judge(r)
     IN /\ IF v = <<>> THEN nbad' = nbad
           ELSE /\ PrintT("BAD|" \o r.id \o "|" \o ToString(v))
                /\ nbad' = nbad + 1
        /\ l' = l + 1
        /\ (l = Len(Rec) => PrintT("SUMMARY|" \o ToString(l) \o "|" \o ToString(nbad')))
Spec == Init /\ [][Next]_<<l, nbad>>
=============================================================================
