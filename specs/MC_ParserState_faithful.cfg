SPECIFICATION Spec
CONSTANTS
  Inputs <- AllInputs
  HistLen = 2
  Cap = 0
  Unpaired <- NoUnpaired
  Resets <- AllResets
INVARIANT ScopeAgrees
INVARIANT EntryFresh
INVARIANT DirectiveNeutral
CHECK_DEADLOCK FALSE
