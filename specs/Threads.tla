------------------------------- MODULE Threads -------------------------------
(***************************************************************************)
(* N threads, each running the parser runtime of ParserState on its own    *)
(* input (C19).  The three pieces of parser state - version stack, memo    *)
(* table, in-directive depth - are thread-local in the code; the constant  *)
(* Shared says which of them are (wrongly) shared between threads in the   *)
(* model.  NonInterference: every thread's observable verdicts equal those *)
(* of its solo run (= the reference InForce of its own input).             *)
(* Holds for Shared = {}; TLC must produce a counterexample for every      *)
(* non-empty Shared - the sanity check that the model can see the bug the  *)
(* property is about.  All interleavings of the threads' steps are         *)
(* explored.                                                               *)
(***************************************************************************)
EXTENDS Naturals, Sequences, FiniteSets, TLC

CONSTANTS NThreads, Shared, InputOf
VARIABLES pc, ver, memo, log

Thr == 1..NThreads
\* index of the copy of a state component that thread t uses
Ix(c, t) == IF c \in Shared THEN 1 ELSE t

RECURSIVE RefStack(_, _, _, _)
RefStack(inp, i, j, st) ==
  IF j >= i THEN st ELSE
  LET tr == inp[j].triv
      F[k \in 0..Len(tr)] == IF k = 0 THEN st ELSE
            IF tr[k] = "kw_old" THEN Append(F[k - 1], "OLD")
            ELSE IF tr[k] = "endkw" /\ F[k - 1] # <<>> THEN SubSeq(F[k - 1], 1, Len(F[k - 1]) - 1)
            ELSE F[k - 1]
  IN RefStack(inp, i, j + 1, F[Len(tr)])
InForce(inp, i) == LET s == RefStack(inp, i, 1, <<>>) IN IF s = <<>> THEN "NEW" ELSE s[Len(s)]

Init == /\ pc = [t \in Thr |-> [slot |-> 1, tix |-> 0]]
        /\ ver = [t \in Thr |-> <<>>]
        /\ memo = [t \in Thr |-> {}]
        /\ log = [t \in Thr |-> <<>>]

TopOf(t) == LET v == ver[Ix("ver", t)] IN IF v = <<>> THEN "NEW" ELSE v[Len(v)]
Inp(t) == InputOf[t]
Done(t) == pc[t].slot > Len(Inp(t))

\* the memo key contains the position only (like the real key: parser name, text pointer, in_directive) -
\* two threads parsing different texts at the same position collide when the table is shared
Tok(t) ==
  /\ ~Done(t) /\ pc[t].tix = 0
  /\ LET s == pc[t].slot
         m == Ix("memo", t)
         hit == {e \in memo[m] : e[1] = <<"id", s>>} IN
     IF Inp(t)[s].tok # "id_old" THEN UNCHANGED <<memo, log>>
     ELSE IF hit # {} THEN /\ log' = [log EXCEPT ![t] = Append(@, <<s, (CHOOSE e \in hit : TRUE)[2]>>)] /\ UNCHANGED memo
     ELSE /\ log' = [log EXCEPT ![t] = Append(@, <<s, TopOf(t)>>)]
          /\ memo' = [memo EXCEPT ![m] = @ \cup {<<<<"id", s>>, TopOf(t)>>}]
  /\ pc' = [pc EXCEPT ![t].tix = 1]
  /\ UNCHANGED ver

Triv(t) ==
  /\ ~Done(t) /\ pc[t].tix >= 1 /\ pc[t].tix <= Len(Inp(t)[pc[t].slot].triv)
  /\ LET e == Inp(t)[pc[t].slot].triv[pc[t].tix]
         v == Ix("ver", t) IN
     ver' = [ver EXCEPT ![v] = IF e = "kw_old" THEN Append(@, "OLD")
                               ELSE IF e = "endkw" THEN (IF @ = <<>> THEN @ ELSE SubSeq(@, 1, Len(@) - 1))
                               ELSE @]
  /\ pc' = [pc EXCEPT ![t].tix = @ + 1]
  /\ UNCHANGED <<memo, log>>

Advance(t) ==
  /\ ~Done(t) /\ pc[t].tix = Len(Inp(t)[pc[t].slot].triv) + 1
  /\ pc' = [pc EXCEPT ![t] = [slot |-> @.slot + 1, tix |-> 0]]
  /\ UNCHANGED <<ver, memo, log>>

Next == \E t \in Thr : Tok(t) \/ Triv(t) \/ Advance(t)
Spec == Init /\ [][Next]_<<pc, ver, memo, log>>

NonInterference == \A t \in Thr : \A i \in 1..Len(log[t]) : log[t][i][2] = InForce(Inp(t), log[t][i][1])
=============================================================================
