SPECIFICATION Spec
CONSTANTS
  MaxNodes = 6
INVARIANT IterIsPrefix
INVARIANT IterComplete
INVARIANT EventIsPrefix
INVARIANT EventComplete
INVARIANT SubIsSlice
INVARIANT NodeFirst
CHECK_DEADLOCK FALSE
