SPECIFICATION Spec
CONSTANTS
  Start = "package_decl"
  Budget = 4
  Collapse = TRUE
  Export = TRUE
INVARIANT BudgetOk
INVARIANT IdsDistinct
INVARIANT ExportInv
CHECK_DEADLOCK FALSE
