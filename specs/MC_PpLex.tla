------------------------------ MODULE MC_PpLex ------------------------------
(* Model checking / generation wrapper for PpLex: every text up to MaxLen over the alphabet.      *)
(* RefIdentity: the partition of an accepted directive-free text tiles it (output = input);       *)
(* FaultKinds: a rejection names one of the three lexical faults and a position inside the text;  *)
(* with Export every text is printed once for replay into the real preprocessor.                  *)
EXTENDS PpLex, Json
CONSTANTS MaxLen, Alphabet, Export
VARIABLE text
Init == text = <<>>
Next == Len(text) < MaxLen /\ \E c \in Alphabet : text' = Append(text, c)
Spec == Init /\ [][Next]_text
RefIdentity == LET r == Lex(text) IN (r.ok /\ r.dfree /\ ~r.fired) => r.out = text
FiredGrows == LET r == Lex(text) IN (r.ok /\ r.dfree /\ r.fired) => Len(r.out) > Len(text)
FaultKinds == LET r == Lex(text) IN ~r.ok => (r.fault \in {"string", "comment", "backslash"} /\ r.fpos <= Len(text))
ExportInv == (Export /\ text # <<>>) => PrintT("REPLAY|" \o ToJson(text))
Alpha9 == {"a", " ", "\n", "\"", "\\", "/", "*", "`", "é"}
Alpha11 == Alpha9 \cup {"\t", "\r"}
=============================================================================
