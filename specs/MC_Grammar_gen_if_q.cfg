SPECIFICATION Spec
CONSTANTS
  Start = "gen_if"
  Budget = 3
  Collapse = TRUE
  Export = TRUE
INVARIANT BudgetOk
INVARIANT IdsDistinct
INVARIANT ExportInv
CHECK_DEADLOCK FALSE
