----------------------------- MODULE MacroBody -----------------------------
(***************************************************************************)
(* Byte-level model of what happens to the TEXT OF A MACRO BODY when a     *)
(* usage is expanded (sv-parser-pp/src/preprocess.rs: split_text and the   *)
(* substitution loop of resolve_text_macro_usage), C05.                    *)
(*                                                                         *)
(* Two definitions of the substituted text ("replaced", the string that is *)
(* handed to the rescan):                                                  *)
(*                                                                         *)
(*  Machine(T, F)  a transcription of the code: a character machine with   *)
(*                 the flags of split_text (one Step per character, one    *)
(*                 character of look-ahead) that cuts the body into pieces *)
(*                 and then the per-piece rewriting of the caller;         *)
(*  Ref(T, F)      the declarative reading of IEEE 1800-2017 22.5.1 over   *)
(*                 the LEXEMES of the body: identifiers (letters, digits,  *)
(*                 _ and $), ordinary string literals (with backslash      *)
(*                 escapes), `` , `" , `\`" , one-line comments, line      *)
(*                 continuations, escaped identifiers, everything else.    *)
(*                                                                         *)
(* T is a sequence of one-character strings (byte view), F a sequence of   *)
(* <<formal name, value>> pairs (both sequences of characters).            *)
(* Ref also says whether the case is DECIDED: shapes whose reading the     *)
(* standard leaves open (block comments, `" inside an ordinary string,     *)
(* line breaks inside strings, an escaped identifier that names a formal   *)
(* or contains lexically active characters) are not judged.                *)
(*                                                                         *)
(* Dev switches put the behaviour of the code BEFORE its repairs back into *)
(* the machine (refutation configs; a returning defect is recognised):     *)
(*   "DollarNotIdent"          $ does not belong to an identifier (D9)     *)
(*   "LeadingBackslashDropped" any backslash at the start of the body is   *)
(*                             swallowed with the leading blanks (D23)     *)
(*   "NoEscapeInString"        \" closes an ordinary string literal (D24)  *)
(*   "CommentGluesWord"        a word directly followed by // and a        *)
(*                             continued line stays one piece with the     *)
(*                             line break: a formal there is missed (D26)  *)
(***************************************************************************)
EXTENDS Naturals, Sequences, FiniteSets, TLC

CONSTANT Dev

Lower == {"a","b","c","d","e","f","g","h","i","j","k","l","m","n","o","p","q","r","s","t","u","v","w","x","y","z"}
Upper == {"A","B","C","D","E","F","G","H","I","J","K","L","M","N","O","P","Q","R","S","T","U","V","W","X","Y","Z"}
Digit == {"0","1","2","3","4","5","6","7","8","9"}
Alnum == Lower \cup Upper \cup Digit
White == {" ", "\t", "\n", "\r", "\f"}          \* char::is_ascii_whitespace

At(t, i) == IF i >= 1 /\ i <= Len(t) THEN t[i] ELSE ""

RECURSIVE Flat(_)
Flat(ss) == IF ss = <<>> THEN <<>> ELSE Head(ss) \o Flat(Tail(ss))

HasPrefixAt(t, i, p) == i + Len(p) - 1 <= Len(t) /\ SubSeq(t, i, i + Len(p) - 1) = p

RECURSIVE ReplaceAll(_, _, _, _)
\* str::replace: leftmost non-overlapping occurrences of pat, from position i
ReplaceAll(t, i, pat, rep) ==
  IF i > Len(t) THEN <<>>
  ELSE IF HasPrefixAt(t, i, pat) THEN rep \o ReplaceAll(t, i + Len(pat), pat, rep)
  ELSE <<t[i]>> \o ReplaceAll(t, i + 1, pat, rep)
Repl(t, pat, rep) == ReplaceAll(t, 1, pat, rep)

Lookup(F, w) == LET S == {k \in 1..Len(F) : F[k][1] = w} IN
                IF S = {} THEN [found |-> FALSE, v |-> <<>>]
                ELSE [found |-> TRUE, v |-> F[CHOOSE k \in S : \A m \in S : m <= k][2]]   \* HashMap insert: the last binding wins

RECURSIVE StripLead(_)
StripLead(t) == IF t # <<>> /\ Head(t) \in White THEN StripLead(Tail(t)) ELSE t

-----------------------------------------------------------------------------
(* The machine: split_text, one Step per character                          *)

IsIdentChar(c) == c \in Alnum \/ c = "_" \/ (c = "$" /\ "DollarNotIdent" \notin Dev)

S0 == [str |-> FALSE, id |-> FALSE, cmt |-> FALSE, bq |-> FALSE, lead |-> TRUE, bs |-> FALSE, esc |-> FALSE, x |-> <<>>, ret |-> <<>>]

\* the abstract part of the machine state (what decides the next transition)
Ctl(s) == <<s.str, s.id, s.cmt, s.bq, s.lead, s.bs, s.esc>>

\* the name of the branch of split_text taken for character c (peek = next character or "")
Branch(s, c, peek) ==
  LET cont == c = "\\" /\ peek \in {"\n", "\r"}
      notlead == IF "LeadingBackslashDropped" \in Dev THEN c # "\\" /\ c \notin White ELSE ~cont /\ c \notin White
  IN
  IF s.lead /\ ~notlead THEN (IF s.bs /\ c = "\n" THEN "lead_cont_end" ELSE "lead_skip")
  ELSE IF c = "\n" /\ s.cmt THEN "cmt_end"
  ELSE IF s.cmt THEN "cmt_skip"
  ELSE IF c = "\"" /\ s.bq THEN "bq_quote"
  ELSE IF c = "\"" /\ ~s.str THEN "str_open"
  ELSE IF c = "\"" /\ s.str /\ (~s.esc \/ "NoEscapeInString" \in Dev) THEN "str_close"
  ELSE IF c = "/" /\ peek = "/" /\ ~s.str THEN "cmt_open"
  ELSE IF ~s.str THEN (IF IsIdentChar(c) # s.id THEN "plain_cut" ELSE "plain")
  ELSE "in_str"

Step(s, c, peek) ==
  LET b == Branch(s, c, peek)
      id2 == IsIdentChar(c)
  IN
  IF b = "lead_cont_end" THEN [s EXCEPT !.lead = FALSE]
  ELSE IF b = "lead_skip" THEN [s EXCEPT !.bs = (c = "\\")]
  ELSE
    LET s1 == [s EXCEPT !.lead = FALSE, !.id = id2] IN          \* is_ident is updated before the branch
    IF b = "cmt_skip" THEN s1                                     \* `continue`: the trailing flag updates are skipped
    ELSE
      LET s2 ==
        CASE b = "cmt_end"   -> [s1 EXCEPT !.cmt = FALSE, !.x = Append(s1.x, c)]
          [] b = "bq_quote"  -> [s1 EXCEPT !.ret = Append(s1.ret, Append(s1.x, c)), !.x = <<>>]
          [] b = "str_open"  -> [s1 EXCEPT !.ret = Append(s1.ret, s1.x), !.x = <<c>>, !.str = TRUE]
          [] b = "str_close" -> [s1 EXCEPT !.ret = Append(s1.ret, Append(s1.x, c)), !.x = <<>>, !.str = FALSE]
          [] b = "cmt_open"  -> IF "CommentGluesWord" \in Dev THEN [s1 EXCEPT !.cmt = TRUE]
                                ELSE [s1 EXCEPT !.cmt = TRUE, !.ret = Append(s1.ret, s1.x), !.x = <<>>]
          [] b = "plain_cut" -> [s1 EXCEPT !.ret = Append(s1.ret, s1.x), !.x = <<c>>]
          [] b = "plain"     -> [s1 EXCEPT !.x = Append(s1.x, c)]
          [] b = "in_str"    -> [s1 EXCEPT !.x = Append(s1.x, c)]
      IN [s2 EXCEPT !.bq = (c = "`"), !.esc = (s2.str /\ c = "\\" /\ ~s.esc)]

RECURSIVE Run(_, _, _)
Run(t, i, s) == IF i > Len(t) THEN s ELSE Run(t, i + 1, Step(s, t[i], At(t, i + 1)))

Split(t) == LET s == Run(t, 1, S0) IN Append(s.ret, s.x)

BQ == "`"
QT == "\""
BSL == "\\"
\* the caller's treatment of one piece
Piece(p, F) ==
  LET l == Lookup(F, p) IN
  IF l.found THEN l.v
  ELSE LET a == IF p # <<>> /\ p[1] = QT THEN p
                ELSE Repl(Repl(Repl(p, <<BQ, BQ>>, <<>>), <<BQ, BSL, BQ, QT>>, <<BSL, QT>>), <<BQ, QT>>, <<QT>>)
       IN Repl(Repl(Repl(a, <<BSL, "\n">>, <<"\n">>), <<BSL, "\r", "\n">>, <<"\r", "\n">>), <<BSL, "\r">>, <<"\r">>)

RECURSIVE Pieces(_, _)
Pieces(ps, F) == IF ps = <<>> THEN <<>> ELSE Piece(Head(ps), F) \o Pieces(Tail(ps), F)

Machine(t, F) == Pieces(Split(t), F)

\* the branches a text exercises, as <<control state, branch>> pairs (transition coverage)
RECURSIVE Visits(_, _, _)
Visits(t, i, s) == IF i > Len(t) THEN {} ELSE {<<Ctl(s), Branch(s, t[i], At(t, i + 1))>>} \cup Visits(t, i + 1, Step(s, t[i], At(t, i + 1)))
Transitions(t) == Visits(t, 1, S0)

-----------------------------------------------------------------------------
(* The reference: lexemes of the body per IEEE 1800-2017 5.6 / 5.9 / 22.5.1  *)

IdStart(c) == c \in Lower \cup Upper \/ c = "_"
IdChar(c) == c \in Alnum \/ c = "_" \/ c = "$"

RECURSIVE SkipId(_, _), SkipNonWhite(_, _), LineStop(_, _), StrStop(_, _)
SkipId(t, j) == IF j <= Len(t) /\ IdChar(t[j]) THEN SkipId(t, j + 1) ELSE j
SkipNonWhite(t, j) == IF j <= Len(t) /\ t[j] \notin White THEN SkipNonWhite(t, j + 1) ELSE j
LineStop(t, j) == IF j > Len(t) \/ t[j] = "\n" THEN j ELSE LineStop(t, j + 1)        \* index of the newline (kept) or Len+1
\* index after the closing quote of the string opened before j; 0 if unterminated
StrStop(t, j) ==
  IF j > Len(t) THEN 0
  ELSE IF t[j] = BSL THEN (IF j + 1 > Len(t) THEN 0 ELSE StrStop(t, j + 2))
  ELSE IF t[j] = QT THEN j + 1
  ELSE StrStop(t, j + 1)

\* leading part that is ignored: white space and line continuations
RECURSIVE LeadEnd(_, _)
LeadEnd(t, i) ==
  IF At(t, i) \in White THEN LeadEnd(t, i + 1)
  ELSE IF At(t, i) = BSL /\ At(t, i + 1) = "\n" THEN LeadEnd(t, i + 2)
  ELSE IF At(t, i) = BSL /\ At(t, i + 1) = "\r" THEN LeadEnd(t, i + 2)
  ELSE i

R(out, dec) == [out |-> out, dec |-> dec]

RECURSIVE Scan(_, _, _, _, _)
Scan(t, F, i, out, dec) ==
  IF i > Len(t) THEN R(out, dec)
  ELSE LET c == t[i] IN
    IF c = QT THEN
      LET j == StrStop(t, i + 1) IN
      IF j = 0 THEN R(out, FALSE)                                                      \* unterminated string: not judged
      ELSE LET s == SubSeq(t, i, j - 1)
               open == \E k \in 1..Len(s) : s[k] \in {"\n", "\r"}                      \* line break inside a string
                       \/ (Len(s) >= 3 /\ s[Len(s) - 1] = BQ)                          \* string that ends in `"
           IN Scan(t, F, j, out \o s, dec /\ ~open)
    ELSE IF c = BQ THEN
      IF At(t, i + 1) = BQ THEN Scan(t, F, i + 2, out, dec /\ At(t, i + 2) # QT)      \* a quote directly behind `` : not judged
      ELSE IF At(t, i + 1) = QT THEN Scan(t, F, i + 2, Append(out, QT), dec)
      ELSE IF At(t, i + 1) = BSL /\ At(t, i + 2) = BQ /\ At(t, i + 3) = QT THEN Scan(t, F, i + 4, out \o <<BSL, QT>>, dec)
      ELSE Scan(t, F, i + 1, Append(out, c), dec)
    ELSE IF c = "/" /\ At(t, i + 1) = "/" THEN Scan(t, F, LineStop(t, i + 2), out, dec)
    ELSE IF c = "/" /\ At(t, i + 1) = "*" THEN R(out, FALSE)                           \* block comment in a body: not judged
    ELSE IF c = BSL THEN
      IF At(t, i + 1) = "\n" THEN Scan(t, F, i + 2, Append(out, "\n"), dec)
      ELSE IF At(t, i + 1) = "\r" /\ At(t, i + 2) = "\n" THEN Scan(t, F, i + 3, out \o <<"\r", "\n">>, dec)
      ELSE IF At(t, i + 1) = "\r" THEN Scan(t, F, i + 2, Append(out, "\r"), dec)
      ELSE IF At(t, i + 1) = "" \/ At(t, i + 1) \in White THEN Scan(t, F, i + 1, Append(out, c), dec)
      ELSE LET j == SkipNonWhite(t, i + 1)                                              \* escaped identifier
               nm == SubSeq(t, i + 1, j - 1)
               plain == \A k \in 1..Len(nm) : IdChar(nm[k])
           IN Scan(t, F, j, out \o SubSeq(t, i, j - 1), dec /\ plain /\ ~Lookup(F, nm).found)
    ELSE IF IdStart(c) THEN
      LET j == SkipId(t, i)
          w == SubSeq(t, i, j - 1)
          l == Lookup(F, w)
      IN Scan(t, F, j, out \o (IF l.found THEN l.v ELSE w), dec)
    ELSE IF c \in Digit \/ c = "$" THEN
      LET j == SkipId(t, i + 1) IN Scan(t, F, j, out \o SubSeq(t, i, j - 1), dec)       \* number / system identifier: one token, never a formal
    ELSE Scan(t, F, i + 1, Append(out, c), dec)

Ref(t, F) == Scan(t, F, LeadEnd(t, 1), <<>>, TRUE)

\* the comparison the property needs: same text up to white space at the very start
Agree(t, F) == LET r == Ref(t, F) IN r.dec => StripLead(Machine(t, F)) = StripLead(r.out)
=============================================================================
