SPECIFICATION Spec
CONSTANTS
  Inputs <- AllInputs
  HistLen = 3
  Cap = 0
  Unpaired <- NoUnpaired
  Resets <- AllResets
INVARIANT ScopeAgrees
INVARIANT EntryFresh
INVARIANT DirectiveNeutral
CHECK_DEADLOCK FALSE
