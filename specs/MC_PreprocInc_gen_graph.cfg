SPECIFICATION Spec
CONSTANTS
  Limit = 3
  Dev = {}
  Mode = "graph"
  Export = TRUE
INVARIANT ExportInv
CHECK_DEADLOCK FALSE
