SPECIFICATION Spec
CONSTANTS
  Limit = 3
  Dev = {}
  Mode = "resolve"
  Export = TRUE
INVARIANT ExportInv
CHECK_DEADLOCK FALSE
