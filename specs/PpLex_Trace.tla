----------------------------- MODULE PpLex_Trace -----------------------------
(***************************************************************************)
(* Trace validation for PpLex (C06 first half, C14 preprocessor half).     *)
(* Record: cs = the text as characters, boff = byte offset of every        *)
(* character (+ total length), path, obs = what preprocess_str returned:   *)
(* outcome, output characters, origin runs, error.  For directive-free     *)
(* text: accepted iff the scanner finds no fault; output = input; every    *)
(* output byte maps to the same offset of the same file; a rejection is    *)
(* Preprocess(path, offset) with offset not after the fault.               *)
(***************************************************************************)
EXTENDS PpLex, Json, IOUtils
Rec == ndJsonDeserialize(IOEnv.TRACE)

Judge(r) ==
  LET x == Lex(r.cs) IN
  IF ~x.dfree THEN <<>>          \* not directive-free: outside this check (counted by the driver)
  ELSE IF r.obs.outcome \notin {"ok", "err"} THEN <<"outcome is not Ok or a structured Error", r.obs.outcome>>
  ELSE IF ~x.ok THEN
       (IF r.obs.outcome # "err" THEN <<"text with a lexical fault is accepted", x.fault>>
        ELSE IF r.obs.err[1] # "Preprocess" THEN <<"lexical fault not reported as Error::Preprocess", ToString(r.obs.err)>>
        ELSE IF r.obs.err[2] = <<>> THEN <<"Preprocess error without location">>
        ELSE IF r.obs.err[2][1][1] # r.path THEN <<"Preprocess error names another file", r.obs.err[2][1][1]>>
        ELSE IF r.obs.err[2][1][2] > r.boff[x.fpos + 1] THEN <<"Preprocess error located after the fault", ToString(r.obs.err[2][1][2]), ToString(r.boff[x.fpos + 1])>>
        ELSE <<>>)
  ELSE IF r.obs.outcome # "ok" THEN <<"directive-free text without lexical fault is rejected", ToString(r.obs.err)>>
  ELSE (IF r.obs.out # x.out THEN <<"output differs from the input">> ELSE <<>>)
       \o (IF ~x.fired /\ r.cs # <<>> /\ r.obs.runs # << <<0, r.boff[Len(r.cs) + 1], r.path, 0>> >> THEN <<"output offsets do not map to the same offsets of the file", ToString(r.obs.runs)>> ELSE <<>>)

VARIABLES l, nbad
Init == l = 1 /\ nbad = 0
Next ==
  /\ l <= Len(Rec)
  /\ LET r == Rec[l]
         v == Judge(r)
     IN /\ IF v = <<>> THEN nbad' = nbad
           ELSE /\ PrintT("BAD|" \o r.id \o "|" \o ToString(v))
                /\ nbad' = nbad + 1
        /\ (v = <<>> /\ Dev # {} /\ Lex(r.cs).fired) => PrintT("BAD|DEV:" \o r.id \o "|" \o ToString(Dev))
        /\ l' = l + 1
        /\ (l = Len(Rec) => PrintT("SUMMARY|" \o ToString(l) \o "|" \o ToString(nbad')))
Spec == Init /\ [][Next]_<<l, nbad>>
=============================================================================
