---------------------------- MODULE MacroActual ----------------------------
(***************************************************************************)
(* Byte-level model of what happens to the TEXT OF AN ACTUAL ARGUMENT      *)
(* before it is bound to its formal (sv-parser-pp/src/preprocess.rs,       *)
(* resolve_text_macro_usage: `arg.str(&s)`, trim_end, ends_in_line_comment)*)
(* C05 / C18.                                                              *)
(*                                                                         *)
(*   raw      the text of the argument as the preprocessor's parser cut it *)
(*            out of the usage (everything up to the separating , or ) ;   *)
(*            a one-line comment inside it is always closed by its line    *)
(*            break, otherwise the separator would be part of the comment) *)
(*   Bound(raw)  what the code binds: trailing white space removed, except *)
(*            that a one-line comment at the end keeps the line break that *)
(*            closes it                                                    *)
(* Requirements (IEEE 1800-2017 22.5.1: the actual argument is substituted *)
(* for the formal; 5.4: a one-line comment ends with a new line):          *)
(*   Closed   the bound text never ends inside a one-line comment - else   *)
(*            the comment would swallow whatever follows the formal in the *)
(*            body AND the text behind the usage                           *)
(*   OnlyTrailingBlanks  raw = Bound(raw) \o blanks                        *)
(* Dev "TrimDropsLineBreak" is the code before its repair (D27): plain     *)
(* trim_end.                                                               *)
(***************************************************************************)
EXTENDS Naturals, Sequences, FiniteSets, TLC
CONSTANT DevA

WhiteA == {" ", "\t", "\n", "\r", "\f"}
AtA(t, i) == IF i >= 1 /\ i <= Len(t) THEN t[i] ELSE ""

\* the scanner of ends_in_line_comment: mode "n" plain, "s" string literal, "b" block comment, "l" one-line comment
RECURSIVE Mode(_, _, _)
Mode(t, i, m) ==
  IF i > Len(t) THEN m
  ELSE LET c == t[i] IN
    CASE m = "l" -> Mode(t, i + 1, IF c = "\n" THEN "n" ELSE "l")
      [] m = "b" -> IF c = "*" /\ AtA(t, i + 1) = "/" THEN Mode(t, i + 2, "n") ELSE Mode(t, i + 1, "b")
      [] m = "s" -> IF c = "\\" THEN Mode(t, i + 2, "s") ELSE IF c = "\"" THEN Mode(t, i + 1, "n") ELSE Mode(t, i + 1, "s")
      [] OTHER   -> IF c = "\"" THEN Mode(t, i + 1, "s")
                    ELSE IF c = "/" /\ AtA(t, i + 1) = "/" THEN Mode(t, i + 2, "l")
                    ELSE IF c = "/" /\ AtA(t, i + 1) = "*" THEN Mode(t, i + 2, "b")
                    ELSE Mode(t, i + 1, "n")
EndsInLineComment(t) == Mode(t, 1, "n") = "l"
WellFormedRaw(t) == Mode(t, 1, "n") = "n"          \* what the parser hands over: every comment and string is closed

RECURSIVE TrimEndLen(_)
TrimEndLen(t) == IF t # <<>> /\ t[Len(t)] \in WhiteA THEN TrimEndLen(SubSeq(t, 1, Len(t) - 1)) ELSE Len(t)

FirstNl(t, from) == LET S == {i \in from..Len(t) : t[i] = "\n"} IN IF S = {} THEN 0 ELSE CHOOSE i \in S : \A j \in S : i <= j

Bound(raw) ==
  LET n == TrimEndLen(raw)
      trimmed == SubSeq(raw, 1, n)
      nl == FirstNl(raw, n + 1)
  IN IF "TrimDropsLineBreak" \notin DevA /\ nl > 0 /\ EndsInLineComment(trimmed) THEN SubSeq(raw, 1, nl) ELSE trimmed

Closed(v) == ~EndsInLineComment(v)
OnlyTrailingBlanks(raw) == LET b == Bound(raw) IN
  /\ Len(b) <= Len(raw) /\ SubSeq(raw, 1, Len(b)) = b
  /\ \A i \in Len(b) + 1..Len(raw) : raw[i] \in WhiteA
\* nothing but white space is lost, and no white space is kept that is not needed to close a comment
Minimal(raw) == LET b == Bound(raw) IN b = <<>> \/ b[Len(b)] \notin WhiteA \/ EndsInLineComment(SubSeq(b, 1, Len(b) - 1))
=============================================================================
