--------------------------- MODULE MC_KeywordScope ---------------------------
(* Sanity model checking of the reserved-word tables: monotone growth along the standards, the      *)
(* noconfig set, the sizes the standard states (Annex B / 22.14), and the region replay.            *)
EXTENDS KeywordScope
VARIABLE evs
Vs == {"1364-1995", "1800-2005", "1800-2017"}
Init == evs = <<>>
Next == Len(evs) < 4 /\ \E e \in {<<"begin", v>> : v \in Vs} \cup {<<"end", "">>} : evs' = Append(evs, e)
Spec == Init /\ [][Next]_evs
Chain == <<"1364-1995", "1364-2001-noconfig", "1364-2001", "1364-2005", "1800-2005", "1800-2009", "1800-2012", "1800-2017">>
Monotone == \A i \in 1..(Len(Chain) - 1) : Reserved(Chain[i]) \subseteq Reserved(Chain[i + 1])
Sizes == /\ Cardinality(Reserved("1364-1995")) = 102 /\ Cardinality(Reserved("1364-2001")) = 123
         /\ Cardinality(Reserved("1364-2001-noconfig")) = 113 /\ Cardinality(Reserved("1364-2005")) = 124
         /\ Cardinality(Reserved("1800-2005")) = 221 /\ Cardinality(Reserved("1800-2009")) = 244
         /\ Cardinality(Reserved("1800-2012")) = 248 /\ Reserved("1800-2017") = Reserved("1800-2012")
\* the set in force is always one of the versions; popping an empty stack is harmless; default outside regions
InForceSane == InForceAfter(evs) \in Versions /\ (evs = <<>> => InForceAfter(evs) = Default)
Innermost == (evs # <<>> /\ evs[Len(evs)][1] = "begin") => InForceAfter(evs) = evs[Len(evs)][2]
=============================================================================
