---------------------------- MODULE Keyword_Trace ----------------------------
(***************************************************************************)
(* Trace validation for KeywordScope (C13).                                *)
(*   tree   the `begin_keywords / `end_keywords directives and the simple  *)
(*          identifiers (macro names marked) of an ACCEPTED tree, in tree  *)
(*          order: no identifier may be a reserved word of the set in      *)
(*          force where it stands                                          *)
(*   sweep  a reserved word of some standard put into an identifier slot   *)
(*          behind a prefix of region directives: rejected iff the word is *)
(*          reserved in the set in force, otherwise accepted with the word *)
(*          as an identifier                                               *)
(*   macro  a word used as the name of a `define: rejected iff it is a     *)
(*          directive name                                                 *)
(***************************************************************************)
EXTENDS KeywordScope, Json, IOUtils
Rec == ndJsonDeserialize(IOEnv.TRACE)

Judge(r) ==
  CASE r.kind = "tree" ->
         LET off == Offenders(r.events, 1, <<>>) IN
         IF off = <<>> THEN <<>> ELSE <<"accepted tree contains a reserved word as identifier", ToString(off[1])>>
    [] r.kind = "sweep" ->
         LET v == InForceAfter(r.regions)
             reserved == r.word \in Reserved(v) IN
         IF r.outcome \notin {"ok", "err"} THEN <<"outcome is not Ok or a structured Error", r.outcome>>
         ELSE IF reserved /\ r.outcome = "ok" THEN <<"reserved word accepted where only an identifier can stand", r.word, v>>
         ELSE IF ~reserved /\ r.outcome = "err" THEN <<"word that is not reserved in the set in force is rejected as identifier", r.word, v>>
         ELSE IF ~reserved /\ ~r.isident THEN <<"word accepted but not as an identifier", r.word, v>>
         ELSE <<>>
    [] r.kind = "macro" ->
         IF r.outcome \notin {"ok", "err"} THEN <<"outcome is not Ok or a structured Error", r.outcome>>
         ELSE IF r.word \in DirectiveNames /\ r.outcome = "ok" THEN <<"directive name accepted as macro name", r.word>>
         ELSE IF r.word \notin DirectiveNames /\ r.outcome = "err" THEN <<"word that is not a directive name rejected as macro name", r.word>>
         ELSE <<>>
    [] OTHER -> <<"unknown record kind">>

VARIABLES l, nbad
Init == l = 1 /\ nbad = 0
Next ==
  /\ l <= Len(Rec)
  /\ LET r == Rec[l]
         v == Judge(r)
     IN /\ IF v = <<>> THEN nbad' = nbad
           ELSE /\ PrintT("BAD|" \o r.id \o "|" \o ToString(v))
                /\ nbad' = nbad + 1
        /\ l' = l + 1
        /\ (l = Len(Rec) => PrintT("SUMMARY|" \o ToString(l) \o "|" \o ToString(nbad')))
Spec == Init /\ [][Next]_<<l, nbad>>
=============================================================================
