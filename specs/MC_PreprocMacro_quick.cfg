SPECIFICATION Spec
CONSTANTS
  Limit = 8
  Dev = {}
  MaxBody = 2
  Export = FALSE
  Redefs <- RedefBoth
INVARIANT MachineEqualsRef
INVARIANT Surrounding
INVARIANT StepBound
CHECK_DEADLOCK FALSE
