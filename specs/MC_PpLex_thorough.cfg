SPECIFICATION Spec
CONSTANTS
  Dev = {}
  MaxLen = 6
  Alphabet <- Alpha9
  Export = FALSE
INVARIANT RefIdentity
INVARIANT FiredGrows
INVARIANT FaultKinds
CHECK_DEADLOCK FALSE
