SPECIFICATION Spec
CONSTANTS
  Inputs <- AllInputs
  HistLen = 1
  Cap = 0
  Unpaired <- UsageUnpaired
  Resets <- AllResets
INVARIANT ScopeAgrees
CHECK_DEADLOCK FALSE
