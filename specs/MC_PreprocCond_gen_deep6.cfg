SPECIFICATION Spec
CONSTANTS
  Limit = 3
  Dev = {}
  MaxLen = 6
  MaxDepth = 3
  Wide = "deep"
  Export = TRUE
  Tables <- TablesOne
INVARIANT ExportInv
CHECK_DEADLOCK FALSE
