SPECIFICATION Spec
CONSTANTS
  Limit = 8
  Dev = {}
  MaxBody = 3
  Export = TRUE
  Redefs <- RedefBoth
INVARIANT ExportInv
CHECK_DEADLOCK FALSE
