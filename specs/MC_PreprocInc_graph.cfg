SPECIFICATION Spec
CONSTANTS
  Limit = 3
  Dev = {}
  Mode = "graph"
  Export = FALSE
INVARIANT MachineEqualsRef
INVARIANT DepthBounded
INVARIANT StackBounded
INVARIANT StepBound
INVARIANT IgnoreInert
CHECK_DEADLOCK FALSE
