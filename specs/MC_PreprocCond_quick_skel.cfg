SPECIFICATION Spec
CONSTANTS
  Limit = 3
  Dev = {}
  MaxLen = 7
  MaxDepth = 3
  Wide = "skel"
  Export = FALSE
  Tables <- TablesA
INVARIANT MachineEqualsRef
INVARIANT StepBound
INVARIANT DeadInert
CHECK_DEADLOCK FALSE
