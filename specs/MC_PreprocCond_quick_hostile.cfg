SPECIFICATION Spec
CONSTANTS
  Limit = 3
  Dev = {}
  MaxLen = 4
  MaxDepth = 2
  Wide = "hostile"
  Export = FALSE
  Tables <- TablesQuick
INVARIANT MachineEqualsRef
INVARIANT StepBound
INVARIANT DeadInert
CHECK_DEADLOCK FALSE
