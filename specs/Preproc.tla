------------------------------ MODULE Preproc ------------------------------
(***************************************************************************)
(* The sv-parser preprocessor as an explicit state machine.                *)
(*                                                                         *)
(* Operator core (no variables): the abstract syntax of source files, the  *)
(* machine state, one operator per arm of the implementation's big `match` *)
(* (sv-parser-pp/src/preprocess.rs), and `Run`, the iteration of `Step`    *)
(* to termination.  Wrappers: MC_Preproc*.tla (model checking / GEN) and   *)
(* Preproc_Trace.tla (validation of records taken from the real library).  *)
(*                                                                         *)
(* Abstract syntax.  A file is a sequence of ITEMS, records with fields    *)
(*   k    kind: "tok" "str" "cmt" "nl" "kept" "def" "undef" "undefall"     *)
(*              "ifdef" "ifndef" "elsif" "else" "endif" "use" "inc" "pos"  *)
(*   n    name / text (macro name, include target, directive text ...)     *)
(*   a    "def": formals <<[n, d]>>, d = <<>> | <<[src, toks]>>            *)
(*        "use": <<>> (no argument list) | <<actuals>>, actual = Seq(BTok) *)
(*   b    "def": <<>> (no body) | <<[src, toks]>>, toks = Seq(BTok)        *)
(*   f    "def": 1 iff a formal list is written; "inc": 0 "f" 1 <f> 2 `M   *)
(*        "cmt": 0 line, 1 block                                           *)
(*   ts   the lexical tokens of the item's own text, to their offsets      *)
(*        inside the item, off the item's byte offset in its file, ln/ln2  *)
(*        its first/last line (all produced by the renderer)               *)
(*   g    TRUE iff no blank separates the item from the next one           *)
(* BODY TOKENS (macro bodies, defaults, actuals): records [k, n, a, g] with*)
(*   k in "lit" "id" "paste" "str" "use" "bqs" "cont" "lcmt"               *)
(*   ("bqs" = `"...`" whose parts are in a; "use" has its argument list in *)
(*   a exactly like an item).                                              *)
(*                                                                         *)
(* Define table: sequence of entries                                       *)
(*   [n, none, f, a, b, file, off]   none = caller-supplied without value  *)
(*   file = "" for caller-supplied entries, else the file whose text holds *)
(*   the `define; off = byte offset of the body in that file.              *)
(***************************************************************************)
EXTENDS Naturals, Sequences, FiniteSets, TLC

CONSTANTS Limit,   \* recursion limit: 64 in the implementation, small in MC configs
          Dev      \* set of named deviations switched on (known findings); {} = reference

Predefined == {"__LINE__", "__FILE__"}

-----------------------------------------------------------------------------
(* small helpers *)

Last(s) == s[Len(s)]
Front(s) == SubSeq(s, 1, Len(s) - 1)
Range(s) == {s[i] : i \in 1..Len(s)}

RECURSIVE FlatSeq(_)
FlatSeq(ss) == IF ss = <<>> THEN <<>> ELSE Head(ss) \o FlatSeq(Tail(ss))

(* define table *)
DefIdx(defs, name) ==
  LET S == {i \in 1..Len(defs) : defs[i].n = name} IN IF S = {} THEN 0 ELSE CHOOSE i \in S : TRUE
DefNames(defs) == {defs[i].n : i \in 1..Len(defs)}
DefDel(defs, name) == SelectSeq(defs, LAMBDA d : d.n # name)
DefSet(defs, e) == Append(DefDel(defs, e.n), e)
IsDefined(defs, name) == name \in DefNames(defs) \/ name \in Predefined

(* file system model *)
FsKind(env, p) ==
  LET S == {i \in 1..Len(env.fs) : env.fs[i].p = p} IN
  IF S = {} THEN "none" ELSE env.fs[CHOOSE i \in S : TRUE].kind
FileItems(env, p) ==
  LET S == {i \in 1..Len(env.files) : env.files[i].n = p} IN
  IF S = {} THEN <<>> ELSE env.files[CHOOSE i \in S : TRUE].items
IsAbs(p) == Len(p) > 0 /\ SubSeq(p, 1, 1) = "/"

\* IEEE 22.4 as the property states it: as given when absolute or existing relative to the
\* working directory, else the first include path that contains it, else as given (and then
\* opening it fails).
RECURSIVE ResolveIn(_, _, _)
ResolveIn(env, name, i) ==
  IF i > Len(env.incdirs) THEN name
  ELSE LET cand == env.incdirs[i] \o "/" \o name IN
       IF FsKind(env, cand) # "none" THEN cand ELSE ResolveIn(env, name, i + 1)
Resolve(env, name) ==
  IF IsAbs(name) \/ FsKind(env, name) # "none" THEN name ELSE ResolveIn(env, name, 1)

-----------------------------------------------------------------------------
(* machine state *)

Tag(c, f, off) == [c |-> c, f |-> f, off |-> off]
NoTag == Tag("", "", 0)

Frame(kind, file, items, ign, org, inc, res) ==
  [kind |-> kind, file |-> file, items |-> items, pc |-> 1, cond |-> <<>>,
   ign |-> ign, org |-> org, inc |-> inc, res |-> res,
   gl |-> FALSE,     \* text frame: the usage is directly followed by text (no blank)
   base |-> 0]       \* length of the output when the frame was pushed

InitState(env) ==
  [stack  |-> <<Frame("file", env.top, FileItems(env, env.top), env.ign, NoTag, 0, 0)>>,
   defs   |-> env.predef,
   out    |-> <<>>,
   status |-> "run",
   err    |-> <<>>,
   steps  |-> 0,
   oi     |-> <<>>,      \* the output as a sequence of items (what a second run over the output reads; C06 fixpoint)
   dev    |-> {}]        \* deviations that actually fired (for attribution of known findings)

Top(st) == Last(st.stack)
Active(fr) == \A i \in 1..Len(fr.cond) : fr.cond[i].live
SetTop(st, fr) == [st EXCEPT !.stack = Append(Front(st.stack), fr)]
Advance(st) == SetTop(st, [Top(st) EXCEPT !.pc = @ + 1])

\* errors raised below an `include are wrapped in Include once per include level
IncludeLevels(stack) == Cardinality({i \in 2..Len(stack) : stack[i].kind = "file"})
RECURSIVE Wrap(_, _)
Wrap(e, n) == IF n = 0 THEN e ELSE Wrap(<<"Include", e>>, n - 1)
Fail(st, e) == [st EXCEPT !.status = "err", !.err = Wrap(e, IncludeLevels(st.stack))]
\* error raised on behalf of a frame that is about to be created one include level deeper
FailDeeper(st, e) == [st EXCEPT !.status = "err", !.err = Wrap(e, IncludeLevels(st.stack) + 1)]

-----------------------------------------------------------------------------
(* output *)

\* Append a token; if the previous token is still "open for gluing" (it came from a macro body
\* and was followed by `` ) the text is concatenated instead: token pasting.
NoGlueRaw(out) == IF out # <<>> /\ Last(out).g THEN Append(Front(out), [Last(out) EXCEPT !.g = FALSE]) ELSE out
\* Two texts written without a blank between them are ONE token only if the lexer reads them as one: a word
\* character on both sides of the seam, or an escaped identifier on the left (it runs up to the next blank).
WordCh == {"a","b","c","d","e","f","g","h","i","j","k","l","m","n","o","p","q","r","s","t","u","v","w","x","y","z",
           "A","B","C","D","E","F","G","H","I","J","K","L","M","N","O","P","Q","R","S","T","U","V","W","X","Y","Z",
           "0","1","2","3","4","5","6","7","8","9","_","$"}
OneToken(a, b) == /\ Len(a) > 0 /\ Len(b) > 0
                  /\ \/ SubSeq(a, 1, 1) = "\\"
                     \/ SubSeq(a, Len(a), Len(a)) \in WordCh /\ SubSeq(b, 1, 1) \in WordCh
EmitTok(out, t, tag, glue) ==
  IF out # <<>> /\ Last(out).g /\ OneToken(Last(out).t, t)
    THEN Append(Front(out), [Last(out) EXCEPT !.t = @ \o t, !.g = glue])
    ELSE Append(NoGlueRaw(out), [t |-> t, o |-> tag, g |-> glue, c |-> FALSE])
NoGlue(out) == NoGlueRaw(out)
EmitCmt(out, t, tag) == Append(NoGlue(out), [t |-> t, o |-> tag, g |-> FALSE, c |-> TRUE])
Unglue(st) == [st EXCEPT !.out = NoGlue(@),
                          !.oi = IF @ # <<>> /\ Last(@).g THEN Append(Front(@), [Last(@) EXCEPT !.g = FALSE]) ELSE @]

RECURSIVE EmitItemToks(_, _, _, _)
EmitItemToks(out, it, fr, j) ==
  IF j > Len(it.ts) THEN out
  ELSE LET tag == IF fr.org = NoTag THEN Tag("copy", fr.file, it.off + it.to[j]) ELSE fr.org
           glue == j = Len(it.ts) /\ it.g
       IN EmitItemToks(EmitTok(out, it.ts[j], tag, glue), it, fr, j + 1)

EmitItem(st, it) == [st EXCEPT !.out = EmitItemToks(st.out, it, Top(st), 1), !.oi = Append(@, it)]

-----------------------------------------------------------------------------
(* macro expansion: IEEE 1800-2017 22.5.1 *)

FormalIdx(fs, name) ==
  LET S == {i \in 1..Len(fs) : fs[i].n = name} IN IF S = {} THEN 0 ELSE CHOOSE i \in S : TRUE

\* bind actuals to formals: actual if present and non-empty, else the default, else empty if
\* the actual is present but empty, else DefineArgNotFound(formal)
RECURSIVE Bind(_, _, _, _)
Bind(fs, acts, i, acc) ==
  IF i > Len(fs) THEN [ok |-> TRUE, err |-> <<>>, m |-> acc]
  ELSE LET f == fs[i] IN
       IF i <= Len(acts) THEN
            IF acts[i] # <<>> THEN Bind(fs, acts, i + 1, Append(acc, acts[i]))
            ELSE Bind(fs, acts, i + 1, Append(acc, IF f.d # <<>> THEN f.d[1].toks ELSE <<>>))
       ELSE IF f.d # <<>> THEN Bind(fs, acts, i + 1, Append(acc, f.d[1].toks))
            ELSE [ok |-> FALSE, err |-> <<"DefineArgNotFound", f.n>>, m |-> <<>>]

\* textual substitution of formals: identifier tokens equal to a formal (also inside `"...`"
\* and inside the arguments of nested usages), never inside ordinary strings
RECURSIVE Subst(_, _, _), SubstArgs(_, _, _), BqText(_, _, _)
SetGlueLast(ts, g) == IF ts = <<>> THEN <<>> ELSE Append(Front(ts), [Last(ts) EXCEPT !.g = g])
Subst(body, fs, m) ==
  IF body = <<>> THEN <<>> ELSE
  LET h == Head(body)
      r == Subst(Tail(body), fs, m)
      i == IF h.k = "id" THEN FormalIdx(fs, h.n) ELSE 0
  IN IF i # 0 THEN (IF m[i] = <<>> THEN <<[k |-> "gap", n |-> "", a |-> <<>>, g |-> FALSE]>> ELSE SetGlueLast(m[i], h.g)) \o r
     ELSE IF h.k = "use" /\ h.a # <<>> THEN <<[h EXCEPT !.a = <<SubstArgs(h.a[1], fs, m)>>]>> \o r
     ELSE IF h.k = "bqs" THEN <<[k |-> "str", n |-> "\"" \o BqText(h.a, fs, m) \o "\"", a |-> <<>>, g |-> h.g]>> \o r
     \* a conditional inside the body: formals are substituted in both branches, the choice is made when the
     \* expansion is rescanned
     ELSE IF h.k = "cond" THEN <<[h EXCEPT !.a = <<[h.a[1] EXCEPT !.a = Subst(h.a[1].a, fs, m)], [h.a[2] EXCEPT !.a = Subst(h.a[2].a, fs, m)]>>]>> \o r
     ELSE <<h>> \o r
SubstArgs(acts, fs, m) ==
  IF acts = <<>> THEN <<>> ELSE <<Subst(Head(acts), fs, m)>> \o SubstArgs(Tail(acts), fs, m)
\* text of a `"...`" string: literal parts verbatim, formal names replaced by the actual's text
\* (actuals inside `"...`" are restricted by the generators to single plain tokens)
RECURSIVE TokText(_)
TokText(ts) == IF ts = <<>> THEN "" ELSE Head(ts).n \o TokText(Tail(ts))
BqText(parts, fs, m) ==
  IF parts = <<>> THEN "" ELSE
  LET h == Head(parts)
      i == IF h.k = "id" THEN FormalIdx(fs, h.n) ELSE 0
  IN (IF i # 0 THEN TokText(m[i]) ELSE h.n) \o BqText(Tail(parts), fs, m)

\* `` disappears and glues its neighbours
RECURSIVE Glue(_)
Glue(ts) ==
  IF ts = <<>> THEN <<>>
  ELSE IF Head(ts).k = "paste" THEN Glue(Tail(ts))
  ELSE IF Len(ts) >= 2 /\ ts[2].k = "paste" THEN <<[Head(ts) EXCEPT !.g = TRUE]>> \o Glue(Tail(ts))
  ELSE <<Head(ts)>> \o Glue(Tail(ts))

\* body tokens -> items of the text frame that is rescanned
RECURSIVE ActualToks(_, _)
BItem(k, n, a, ts, g) ==
  [k |-> k, n |-> n, a |-> a, b |-> <<>>, f |-> 0, ts |-> ts, to |-> [i \in 1..Len(ts) |-> 0],
   off |-> 0, ln |-> 0, ln2 |-> 0, g |-> g]
RECURSIVE BodyItem(_), BodyItems(_)
BodyItem(t) ==
  CASE t.k \in {"lit", "id", "str"} -> <<BItem(IF t.k = "str" THEN "str" ELSE "tok", t.n, <<>>, <<t.n>>, t.g)>>
    [] t.k = "use" -> <<BItem("use", t.n, t.a, <<>>, t.g)>>
    [] t.k = "pos" -> <<BItem("pos", t.n, <<>>, <<>>, t.g)>>
    [] t.k = "gap" -> <<BItem("gap", "", <<>>, <<>>, FALSE)>>
    [] t.k = "def" -> <<[BItem("def", t.n, <<>>, <<"`", "define", t.n>> \o [i \in 1..Len(t.a) |-> t.a[i].n], FALSE)
                          EXCEPT !.b = <<[src |-> t.s, toks |-> t.a, boff |-> 0]>>]>>      \* object-like `define NAME body, ends its line
    [] t.k = "undef" -> <<BItem("undef", t.n, <<>>, <<"`", "undef", t.n>>, FALSE)>>        \* directives inside a body are executed
    [] t.k = "undefall" -> <<BItem("undefall", "", <<>>, <<"`", "undefineall">>, FALSE)>>  \* when the expansion is rescanned
    [] t.k = "cmt" -> <<BItem("cmt", t.n, <<>>, <<t.n>>, t.g)>>     \* a block comment inside a body is part of the expansion
    [] t.k = "inc" -> <<BItem("inc", t.n, <<>>, <<>>, FALSE)>>      \* a body that contains `include "f"
    \* `ifdef N <then> `else <else> `endif written inside a body (t.s = "ifdef" | "ifndef"; t.a = <<then group, else group>>):
    \* the directives are executed when the expansion is rescanned, against the define table of that moment
    [] t.k = "cond" -> <<BItem(t.s, t.n, <<>>, <<>>, FALSE)>> \o BodyItems(t.a[1].a) \o <<BItem("else", "", <<>>, <<>>, FALSE)>>
                       \o BodyItems(t.a[2].a) \o <<BItem("endif", "", <<>>, <<>>, FALSE)>>
    [] OTHER -> <<>>       \* "cont" (line continuation) and "lcmt" (// comment) contribute no token
BodyItems(ts) == IF ts = <<>> THEN <<>> ELSE BodyItem(Head(ts)) \o BodyItems(Tail(ts))

\* argument list as written (restored behind the body of a macro without formals)
Lit(n) == [k |-> "lit", n |-> n, a |-> <<>>, g |-> FALSE]
ActualToks(acts, i) ==
  IF i > Len(acts) THEN <<>>
  ELSE (IF i > 1 THEN <<Lit(",")>> ELSE <<>>) \o acts[i] \o ActualToks(acts, i + 1)
ParenToks(acts) == <<Lit("(")>> \o ActualToks(acts, 1) \o <<Lit(")")>>

\* Result of resolving one usage: [ok, err, items, tag, none]
\*   none = TRUE: nothing is produced (macro without body / without value)
ExpandUse(st, fr, u) ==
  LET depth == fr.res + 1
      i == DefIdx(st.defs, u.n)
      Bad(e) == [ok |-> FALSE, err |-> e, items |-> <<>>, tag |-> NoTag, none |-> TRUE]
      Nothing == [ok |-> TRUE, err |-> <<>>, items |-> <<>>, tag |-> NoTag, none |-> TRUE]
  IN
  IF depth > Limit THEN Bad(<<"ExceedRecursiveLimit">>)
  ELSE IF i = 0 THEN Bad(<<"DefineNotFound", u.n>>)
  ELSE LET d == st.defs[i]
           \* a macro without formals takes no argument list: a parenthesised group behind its usage is ordinary
           \* text that survives (rescanned), also when the macro has no body or no value
           ParenOnly == [ok |-> TRUE, err |-> <<>>, items |-> BodyItems(ParenToks(u.a[1])),
                         \* the group is copied from where it is written: no byte of it lies before its "(" (third
                         \* token of the usage: back-tick, name, parenthesis - white space may stand in front of it)
                         tag |-> IF fr.org # NoTag THEN fr.org
                                 ELSE Tag("exp", fr.file, u.off + (IF Len(u.to) >= 3 THEN u.to[3] ELSE 0)), none |-> FALSE]
       IN
       IF d.none THEN (IF u.a = <<>> THEN Nothing ELSE ParenOnly)
       ELSE IF d.a # <<>> /\ u.a = <<>> THEN Bad(<<"DefineNoArgs", d.n>>)
       ELSE LET b == Bind(d.a, IF u.a = <<>> THEN <<>> ELSE u.a[1], 1, <<>>) IN
            IF ~b.ok THEN Bad(b.err)
            ELSE IF d.b = <<>> THEN (IF d.a = <<>> /\ u.a # <<>> THEN ParenOnly ELSE Nothing)
            ELSE LET body  == Subst(Glue(d.b[1].toks), d.a, b.m)
                     paren == IF d.a = <<>> /\ u.a # <<>> THEN ParenToks(u.a[1]) ELSE <<>>
                     tag   == IF fr.org # NoTag THEN fr.org   \* bytes of a nested expansion belong to the outermost usage
                              ELSE IF d.file = "" THEN Tag("syn", "", 0)
                              ELSE IF d.file = "?" THEN Tag("any", "", 0)
                              ELSE Tag("exp", d.file, d.off)
                 IN [ok |-> TRUE, err |-> <<>>, items |-> BodyItems(body \o paren), tag |-> tag, none |-> FALSE]

-----------------------------------------------------------------------------
(* conditional compilation: IEEE 22.6 *)

\* cond entry: [live, taken, neg, id]; Active = all entries live
CondIf(st, fr, it, neg) ==
  LET c == IF Active(fr) THEN (IF neg THEN ~IsDefined(st.defs, it.n) ELSE IsDefined(st.defs, it.n)) ELSE FALSE
      e == [live |-> c, taken |-> (c \/ ~Active(fr)), neg |-> neg, id |-> it.n]
  IN SetTop(st, [fr EXCEPT !.cond = Append(@, e), !.pc = @ + 1])

\* `elsif: holds iff no earlier branch of the chain was taken and the name is defined.
\* Deviation IfndefElsifTestsIfId (known finding, pinned by golden files macro_LINE/macro_FILE):
\* in an `ifndef chain the "is predefined" half of the test looks at the `ifndef identifier.
ElsifHolds(st, e, name) ==
  IF "IfndefElsifTestsIfId" \in Dev /\ e.neg
    THEN name \in DefNames(st.defs) \/ e.id \in Predefined
    ELSE IsDefined(st.defs, name)
CondElsif(st, fr, it) ==
  LET e == Last(fr.cond)
      outer == \A i \in 1..(Len(fr.cond) - 1) : fr.cond[i].live
      c == outer /\ ~e.taken /\ ElsifHolds(st, e, it.n)
      fired == outer /\ ~e.taken /\ (ElsifHolds(st, e, it.n) # IsDefined(st.defs, it.n))
      ne == [e EXCEPT !.live = c, !.taken = (e.taken \/ c)]
      st2 == IF fired THEN [st EXCEPT !.dev = @ \cup {"IfndefElsifTestsIfId"}] ELSE st
  IN SetTop(st2, [fr EXCEPT !.cond = Append(Front(@), ne), !.pc = @ + 1])
CondElse(st, fr) ==
  LET e == Last(fr.cond)
      ne == [e EXCEPT !.live = ~e.taken, !.taken = TRUE]
  IN SetTop(st, [fr EXCEPT !.cond = Append(Front(@), ne), !.pc = @ + 1])
CondEndif(st, fr) == SetTop(st, [fr EXCEPT !.cond = Front(@), !.pc = @ + 1])

-----------------------------------------------------------------------------
(* `include: IEEE 22.4 *)

\* Same-line rule: anything but blanks and comments on the line of an active `include.
OnLine(it, l) == it.ln <= l /\ l <= it.ln2
LineMates(fr) ==
  LET it == fr.items[fr.pc] IN
  {j \in 1..Len(fr.items) : j # fr.pc /\ fr.items[j].k \notin {"nl", "cmt"} /\ OnLine(fr.items[j], it.ln)}
\* Deviation IncludeLineUsesStartLine (known finding D10): the implementation compares the line on
\* which a plain-text run or a directive STARTS with the line of the `include.  A run is a
\* maximal sequence of plain tokens and line breaks, so a token that shares the include's line
\* but belongs to a run that started on an earlier line is not seen; string literals are never
\* looked at.
RECURSIVE RunStart(_, _)
RunStart(items, j) == IF j > 1 /\ items[j - 1].k \in {"tok", "nl"} THEN RunStart(items, j - 1) ELSE j
FirstTokLine(items, j) ==
  LET s == RunStart(items, j)
      S == {k \in s..j : items[k].k = "tok"}
  IN items[CHOOSE k \in S : \A k2 \in S : k <= k2].ln
ImplSees(fr, j) ==
  LET x == fr.items[j] IN
  IF x.k = "str" THEN FALSE
  ELSE IF x.k = "tok" THEN FirstTokLine(fr.items, j) = fr.items[fr.pc].ln
  ELSE x.ln = fr.items[fr.pc].ln
IncludeLineErr(fr) ==
  IF "IncludeLineUsesStartLine" \in Dev THEN \E j \in LineMates(fr) : ImplSees(fr, j)
  ELSE LineMates(fr) # {}
IncludeLineDevFired(fr) == "IncludeLineUsesStartLine" \in Dev /\ LineMates(fr) # {} /\ ~(\E j \in LineMates(fr) : ImplSees(fr, j))

-----------------------------------------------------------------------------
(* Deviation DupTriviaAfterStrEsc (known finding D2, pinned by the golden files               *)
(* expected/escaped_identifier.sv and IEEE18002017_macro_without_defaults.sv):                *)
(* the blanks, comments and directives that follow a string literal belong to the string      *)
(* literal's node and are copied to the output verbatim together with it - and are then       *)
(* processed again as what they are.  At token level: the raw text of the comments and        *)
(* directives that directly follow a string literal appears once more, before their normal    *)
(* contribution.                                                                              *)

TriviaKinds == {"nl", "gap", "cmt", "use", "kept", "def", "undef", "undefall", "pos", "inc"}
RECURSIVE RawBToks(_), RawArgs(_, _)
RawUse(n, a) == <<"`", n>> \o (IF a = <<>> THEN <<>> ELSE <<"(">> \o RawArgs(a[1], 1) \o <<")">>)
RawBToks(ts) ==
  IF ts = <<>> THEN <<>>
  ELSE LET t == Head(ts) IN
       (IF t.k \in {"lit", "id", "str"} THEN <<t.n>> ELSE IF t.k = "use" THEN RawUse(t.n, t.a) ELSE <<>>)
       \o RawBToks(Tail(ts))
RawArgs(acts, i) ==
  IF i > Len(acts) THEN <<>>
  ELSE (IF i > 1 THEN <<",">> ELSE <<>>) \o RawBToks(acts[i]) \o RawArgs(acts, i + 1)
RawItemToks(it) ==
  IF it.ts # <<>> THEN it.ts
  ELSE IF it.k = "use" THEN RawUse(it.n, it.a)
  ELSE IF it.k = "pos" THEN <<"`", it.n>>
  ELSE <<>>
RECURSIVE EmitRawToks(_, _, _, _, _)
EmitRawToks(out, it, raw, fr, j) ==
  IF j > Len(raw) THEN out
  ELSE LET tag == IF fr.org = NoTag /\ j <= Len(it.to) THEN Tag("copy", fr.file, it.off + it.to[j]) ELSE fr.org
           o2 == IF it.k = "cmt" THEN EmitCmt(out, raw[j], tag) ELSE EmitTok(NoGlue(out), raw[j], tag, FALSE)
       IN EmitRawToks(o2, it, raw, fr, j + 1)
RECURSIVE EmitTriviaRaw(_, _, _)
EmitTriviaRaw(st, fr, j) ==     \* items j.. of the frame while they are trivia of the string literal
  IF j > Len(fr.items) \/ fr.items[j].k \notin TriviaKinds THEN st
  ELSE LET it == fr.items[j]
           raw == RawItemToks(it)
           st2 == IF raw = <<>> THEN st
                  ELSE [st EXCEPT !.out = EmitRawToks(@, it, raw, fr, 1), !.dev = @ \cup {"DupTriviaAfterStrEsc"}]
       IN EmitTriviaRaw(st2, fr, j + 1)
StepStr(st, fr, it) ==
  LET s1 == EmitItem(st, it) IN
  IF "DupTriviaAfterStrEsc" \in Dev THEN Advance(EmitTriviaRaw(s1, Top(s1), fr.pc + 1)) ELSE Advance(s1)

-----------------------------------------------------------------------------
(* one step = one arm of the implementation's match *)

StepUse(st, fr, it) ==
  LET x == ExpandUse(st, fr, it) IN
  IF ~x.ok THEN Fail(st, x.err)
  ELSE IF x.none THEN Advance(Unglue(st))
  ELSE LET adv == Advance(st)
           \* deviation DepthNotThreaded (refutation only; defect D5, repaired): the include depth is
           \* forgotten when a macro is expanded, the resolve depth when a file is included
           nf == [Frame("text", fr.file, x.items, FALSE, x.tag, IF "DepthNotThreaded" \in Dev THEN 0 ELSE fr.inc, fr.res + 1) EXCEPT !.gl = it.g, !.base = Len(st.out)]
       IN [adv EXCEPT !.stack = Append(@, nf)]

\* file named by a macro: the trimmed, unquoted expansion text
Unquote(s) == IF Len(s) >= 2 /\ SubSeq(s, 1, 1) = "\"" /\ SubSeq(s, Len(s), Len(s)) = "\"" THEN SubSeq(s, 2, Len(s) - 1) ELSE s
\* Big-step expansion of the usage that names the file: nested usages are expanded against the current table, each level
\* counts as one level of macro resolution (the same counter as every other expansion); // comments and line continuations
\* are no part of the text.  (Formals are not substituted here: the generators name files through formal-less macros.)
RECURSIVE NameToks(_, _, _), NameOfUse(_, _, _)
NameErr(e) == [ok |-> FALSE, err |-> e, text |-> ""]
NameToks(defs, toks, depth) ==
  IF toks = <<>> THEN [ok |-> TRUE, err |-> <<>>, text |-> ""]
  ELSE LET h == Head(toks) IN
       IF h.k \in {"lcmt", "cont", "cmt"} THEN NameToks(defs, Tail(toks), depth)
       ELSE IF h.k = "use" THEN
            LET e == NameOfUse(defs, h.n, depth) IN
            IF ~e.ok THEN e
            ELSE LET r == NameToks(defs, Tail(toks), depth) IN IF ~r.ok THEN r ELSE [r EXCEPT !.text = e.text \o @]
       ELSE LET r == NameToks(defs, Tail(toks), depth) IN IF ~r.ok THEN r ELSE [r EXCEPT !.text = h.n \o @]
NameOfUse(defs, n, depth) ==
  IF depth > Limit THEN NameErr(<<"ExceedRecursiveLimit">>)
  ELSE LET i == DefIdx(defs, n) IN
       IF i = 0 THEN NameErr(<<"DefineNotFound", n>>)
       ELSE LET d == defs[i] IN
            IF d.none \/ d.b = <<>> THEN [ok |-> TRUE, err |-> <<>>, text |-> ""]
            ELSE IF d.a # <<>> THEN NameErr(<<"DefineNoArgs", n>>)
            ELSE NameToks(defs, d.b[1].toks, depth + 1)

\* Errors of the callee are wrapped in Include at the call site, hence FailDeeper for
\* everything that is detected on behalf of the included file.
StepInclude2(st, env, fr, it) ==
  LET nm == IF it.f = 2 THEN NameOfUse(st.defs, it.n, fr.res + 1) ELSE [ok |-> TRUE, err |-> <<>>, text |-> it.n] IN
  IF ~nm.ok THEN Fail(st, nm.err)
  ELSE LET name == IF it.f = 2 THEN Unquote(nm.text) ELSE it.n
           p    == Resolve(env, name)
           kind == FsKind(env, p)
       IN IF kind = "none" THEN FailDeeper(st, <<"File", p>>)
          ELSE IF kind # "file" THEN FailDeeper(st, <<"ReadUtf8", p>>)
          ELSE IF fr.inc + 1 > Limit THEN FailDeeper(st, <<"ExceedRecursiveLimit">>)
          ELSE LET adv == Advance(st)
                   \* a file included from inside an expansion is flattened into the expansion's text:
                   \* its bytes belong to the outermost usage as well
                   nf  == Frame("file", p, FileItems(env, p), FALSE, fr.org, fr.inc + 1, IF "DepthNotThreaded" \in Dev THEN 0 ELSE fr.res)
               IN [adv EXCEPT !.stack = Append(@, nf)]

StepInclude(st, env, fr, it) ==
  IF fr.ign THEN Advance(st)      \* ignore_include: nothing is read, nothing is contributed
  ELSE IF IncludeLineDevFired(fr) THEN StepInclude2([st EXCEPT !.dev = @ \cup {"IncludeLineUsesStartLine"}], env, fr, it)
  ELSE IF IncludeLineErr(fr) THEN Fail(st, <<"IncludeLine">>)
  ELSE StepInclude2(st, env, fr, it)

StepDefine(st, fr, it) ==
  LET e == [n |-> it.n, none |-> FALSE, f |-> it.f, a |-> it.a, b |-> it.b,
            \* "?" = defined inside an expansion: the property fixes no origin for what such a macro expands to
            file |-> IF fr.org = NoTag THEN fr.file ELSE "?",
            off |-> IF it.b = <<>> THEN 0 ELSE it.off + it.b[1].boff]
      st2 == IF it.n \in Predefined THEN st ELSE [st EXCEPT !.defs = DefSet(@, e)]
  IN Advance(EmitItem(st2, it))       \* the directive itself is kept in the output

StepPos(st, fr, it) ==
  LET t == IF it.n = "__FILE__" THEN "\"" \o fr.file \o "\""
           ELSE IF fr.kind = "file" THEN ToString(it.ln) ELSE "<num>"
  IN Advance([st EXCEPT !.out = EmitTok(@, t, Tag("syn", "", 0), FALSE),
                        !.oi = Append(@, BItem(IF it.n = "__FILE__" THEN "str" ELSE "tok", t, <<>>, <<t>>, FALSE))])

\* items inside a discarded branch have no effect and raise no error; only the conditional
\* directives themselves are followed (nesting)
StepDead(st, fr, it) ==
  CASE it.k \in {"ifdef", "ifndef"} -> CondIf(st, fr, it, it.k = "ifndef")
    [] it.k = "elsif" -> CondElsif(st, fr, it)
    [] it.k = "else"  -> CondElse(st, fr)
    [] it.k = "endif" -> CondEndif(st, fr)
    [] OTHER -> Advance(st)

\* strip_comments: the comment disappears; the tokens around it stay separate tokens.
\* Deviation StripGluesTokens (known finding D6): nothing is put in its place, so tokens that
\* were separated only by the comment run together.
StripCmt(st, it) ==
  IF "StripGluesTokens" \in Dev /\ it.g /\ st.out # <<>> /\ Last(st.out).g
    THEN [st EXCEPT !.dev = @ \cup {"StripGluesTokens"}]
    ELSE Unglue(st)

StepLive(st0, env, fr, it) ==
  LET st == IF it.k \in {"tok", "str", "use", "cmt"} THEN st0 ELSE Unglue(st0) IN
  CASE it.k \in {"tok", "kept"} -> Advance(EmitItem(st, it))
    [] it.k = "str"      -> StepStr(st, fr, it)
    [] it.k = "cmt"      -> IF env.strip THEN Advance(StripCmt(st, it))
                            ELSE Advance([st EXCEPT !.out = EmitCmt(@, IF it.ts # <<>> THEN it.ts[1] ELSE it.n, IF fr.org = NoTag THEN Tag("copy", fr.file, it.off) ELSE fr.org),
                                                  !.oi = Append(@, it)])
    [] it.k \in {"nl", "gap"} -> Advance(Unglue(st))
    [] it.k = "def"      -> StepDefine(st, fr, it)
    [] it.k = "undef"    -> Advance(EmitItem([st EXCEPT !.defs = DefDel(@, it.n)], it))
    [] it.k = "undefall" -> Advance(EmitItem([st EXCEPT !.defs = <<>>], it))
    [] it.k \in {"ifdef", "ifndef"} -> CondIf(st, fr, it, it.k = "ifndef")
    [] it.k = "elsif"    -> CondElsif(st, fr, it)
    [] it.k = "else"     -> CondElse(st, fr)
    [] it.k = "endif"    -> CondEndif(st, fr)
    [] it.k = "use"      -> StepUse(st, fr, it)
    [] it.k = "inc"      -> StepInclude(st, env, fr, it)
    [] it.k = "pos"      -> StepPos(st, fr, it)
    [] OTHER -> Advance(st)

\* Return: the frame is exhausted; the caller continues (it already points behind the
\* usage/include) and keeps the define table as the callee left it.
StepReturn(st) ==
  LET fr == Top(st) IN
  IF Len(st.stack) = 1 THEN [st EXCEPT !.status = "ok"]
  ELSE IF fr.kind = "text" /\ fr.gl /\ Len(st.out) > fr.base
         THEN [st EXCEPT !.stack = Front(@), !.out = Append(Front(@), [Last(@) EXCEPT !.g = TRUE])]
  ELSE [st EXCEPT !.stack = Front(@), !.out = NoGlue(@)]

Step(st, env) ==
  LET fr == Top(st)
      st1 == [st EXCEPT !.steps = @ + 1]
  IN IF fr.pc > Len(fr.items) THEN StepReturn(st1)
     ELSE LET it == fr.items[fr.pc] IN
          IF Active(fr) THEN StepLive(st1, env, fr, it) ELSE StepDead(st1, fr, it)

RECURSIVE RunFrom(_, _)
RunFrom(st, env) == IF st.status # "run" THEN st ELSE RunFrom(Step(st, env), env)
Run(env) == RunFrom(InitState(env), env)

-----------------------------------------------------------------------------
(* observable projections *)

OutToks(st) == [i \in 1..Len(st.out) |-> st.out[i].t]
NonCmt(out) == SelectSeq(out, LAMBDA x : ~x.c)
OutNonCmtToks(st) == LET o == NonCmt(st.out) IN [i \in 1..Len(o) |-> o[i].t]

\* returned define table, projected as the property states it: names with formals (name and
\* default text), body text; caller-supplied entries flow through unchanged
DefView(d) == [n |-> d.n, none |-> d.none,
               a |-> [i \in 1..Len(d.a) |-> [n |-> d.a[i].n, d |-> IF d.a[i].d = <<>> THEN <<>> ELSE <<d.a[i].d[1].src>>]],
               b |-> IF d.b = <<>> THEN <<>> ELSE <<d.b[1].src>>]
DefTable(st) == {DefView(st.defs[i]) : i \in 1..Len(st.defs)}

=============================================================================
