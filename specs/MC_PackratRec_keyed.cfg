SPECIFICATION Spec
CONSTANTS
  FlagsInKey = TRUE
  MaxLen = 4
  Caps <- CapsAll
INVARIANT TransparentInv
INVARIANT MemoFreeInv
INVARIANT LeftRecursionInv
CHECK_DEADLOCK FALSE
