SPECIFICATION Spec
CONSTANTS
  Wiring = "swapped"
INVARIANT EntryPointsAgree
CHECK_DEADLOCK FALSE
