SPECIFICATION Spec
CONSTANTS
  Dev = {}
  MaxLen = 4
  Alphabet <- Alpha9
  Export = TRUE
  Formals <- F2
INVARIANTS ExportInv
CHECK_DEADLOCK FALSE
