SPECIFICATION Spec
CONSTANTS
  Limit = 3
  Dev = {}
  Mode = "resolve"
  Export = FALSE
INVARIANT MachineEqualsRef
INVARIANT DepthBounded
INVARIANT StackBounded
INVARIANT StepBound
INVARIANT IgnoreInert
CHECK_DEADLOCK FALSE
