SPECIFICATION Spec
CONSTANTS
  Start = "module_nonansi"
  Budget = 2
  Collapse = TRUE
  Export = TRUE
INVARIANT BudgetOk
INVARIANT IdsDistinct
INVARIANT ExportInv
CHECK_DEADLOCK FALSE
