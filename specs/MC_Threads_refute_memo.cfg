SPECIFICATION Spec
CONSTANTS
  NThreads = 2
  Shared <- SharedMemo
  InputOf <- Inputs2
INVARIANT NonInterference
CHECK_DEADLOCK FALSE
