---------------------------- MODULE Trivia_Trace ----------------------------
(***************************************************************************)
(* Trace validation for C12.  A record is one base source (tokens          *)
(* separated by single blanks) with what the parser returned for it        *)
(* (acceptance + whitespace-free skeleton), and a list of variants: the    *)
(* blank at one inter-token position (or at all positions, or at one position *)
(* plus further ones, x.also) replaced by a                                *)
(* trivia run.  TLC checks that every run is in the language of Trivia and *)
(* was rendered as the specification renders it, and that acceptance and   *)
(* skeleton of every variant equal those of the base.                      *)
(***************************************************************************)
EXTENDS Trivia, Json, IOUtils
Rec == ndJsonDeserialize(IOEnv.TRACE)

\* x.also: further placements of the same variant (a `resetall at one position together with a comment or
\* directive at a later one); each of them has to be a run of the language, too.
JudgeVariant(base, x) ==
  IF ~WellFormed(x.run, x.top, x.prev) \/ \E i \in 1..Len(x.also) : ~WellFormed(x.also[i].run, x.also[i].top, x.also[i].prev)
    THEN <<"run is not in the trivia language", ToString(x.run)>>
  ELSE IF RunText(x.run) # x.text \/ \E i \in 1..Len(x.also) : RunText(x.also[i].run) # x.also[i].text
    THEN <<"run was not rendered as the specification renders it", ToString(x.run)>>
  ELSE IF x.res.outcome \notin {"ok", "err"} THEN <<"outcome is not Ok or a structured Error", x.res.outcome, ToString(x.run), ToString(x.pos)>>
  ELSE IF x.res.outcome # base.outcome THEN <<"trivia changes acceptance", ToString(x.run), "at position", ToString(x.pos), base.outcome, x.res.outcome>>
  ELSE IF base.outcome = "ok" /\ x.res.skel # base.skel THEN <<"trivia changes the tree", ToString(x.run), "at position", ToString(x.pos)>>
  ELSE <<>>

RECURSIVE JudgeAll(_, _, _)
JudgeAll(base, xs, i) ==
  IF i > Len(xs) THEN <<>>
  ELSE LET v == JudgeVariant(base, xs[i]) IN IF v # <<>> THEN v ELSE JudgeAll(base, xs, i + 1)

Judge(r) == JudgeAll(r.base, r.variants, 1)

VARIABLES l, nbad
Init == l = 1 /\ nbad = 0
Next ==
  /\ l <= Len(Rec)
  /\ LET r == Rec[l]
         v == Judge(r)
     IN /\ IF v = <<>> THEN nbad' = nbad
           ELSE /\ PrintT("BAD|" \o r.id \o "|" \o ToString(v))
                /\ nbad' = nbad + 1
        /\ l' = l + 1
        /\ (l = Len(Rec) => PrintT("SUMMARY|" \o ToString(l) \o "|" \o ToString(nbad')))
Spec == Init /\ [][Next]_<<l, nbad>>
=============================================================================
