SPECIFICATION Spec
CONSTANTS
  Family = "pure"
  MaxLen = 6
  Caps <- CapsAll
INVARIANT TransparentInv
CHECK_DEADLOCK FALSE
