SPECIFICATION FairSpec
CONSTANTS
  Limit = 3
  Dev = {}
  Mode = "graph"
  Export = FALSE
PROPERTY Terminates
CHECK_DEADLOCK FALSE
