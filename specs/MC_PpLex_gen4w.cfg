SPECIFICATION Spec
CONSTANTS
  Dev = {}
  MaxLen = 4
  Alphabet <- Alpha11
  Export = TRUE
INVARIANT ExportInv
CHECK_DEADLOCK FALSE
