--------------------------- MODULE MC_MacroActual ---------------------------
(* every raw argument text up to MaxLen over the alphabet that the parser can hand over (WellFormedRaw) *)
EXTENDS MacroActual
CONSTANTS MaxLen
VARIABLE raw
AlphaA == {"x", "/", "*", "\n", " ", "\"", "\\"}
Init == raw = <<>>
Next == Len(raw) < MaxLen /\ \E c \in AlphaA : raw' = Append(raw, c)
Spec == Init /\ [][Next]_raw
ClosedInv == WellFormedRaw(raw) => Closed(Bound(raw))
TrailingInv == WellFormedRaw(raw) => OnlyTrailingBlanks(raw)
MinimalInv == WellFormedRaw(raw) => Minimal(raw)
=============================================================================
