SPECIFICATION Spec
CONSTANTS
  Start = "program_decl"
  Budget = 3
  Collapse = TRUE
  Export = TRUE
INVARIANT BudgetOk
INVARIANT IdsDistinct
INVARIANT ExportInv
CHECK_DEADLOCK FALSE
