SPECIFICATION Spec
CONSTANTS
  Family = "impure_write"
  MaxLen = 3
  Caps <- CapsAll
INVARIANT TransparentInv
CHECK_DEADLOCK FALSE
