----------------------------- MODULE Tree_Trace -----------------------------
(***************************************************************************)
(* Trace validation for Tree: a record is one tree returned by the real    *)
(* library - node table (kinds, token locations), the Enter/Leave stream   *)
(* of EventIter, the node sequence of Iter, and probes of sampled nodes    *)
(* (sub-iteration, unwrap_node!/unwrap_locate!, get_str, get_str_trim,     *)
(* Locate::try_from) - together with facts about the preprocessed text     *)
(* (length, newline offsets, offsets that are not character boundaries).   *)
(*   C16  root first; every node one Enter and one matching Leave,         *)
(*        properly nested; Enter sequence = plain iteration; sub-iteration *)
(*        = slice; macro results = first node of the kinds; trim span.     *)
(*   C01  tokens tile the text (no gap/overlap/empty token, character      *)
(*        boundaries, line numbers), to the end (strict) or a prefix       *)
(*        (incomplete); get_str of a node = span of its own tokens.        *)
(***************************************************************************)
EXTENDS Tree, Json, IOUtils
Rec == ndJsonDeserialize(IOEnv.TRACE)

IsLeaf(r, n) == r.kinds[n] = "Locate"
LeavesOf(r, nodes) == LET s == SelectSeq(nodes, LAMBDA n : IsLeaf(r, n)) IN [i \in 1..Len(s) |-> r.locs[s[i]]]
SpanOf(lv) == IF lv = <<>> THEN <<>> ELSE <<lv[1][1], (Last(lv)[1] + Last(lv)[2]) - lv[1][1]>>

\* tokens of a sub-stream that are not inside a WhiteSpace node (get_str_trim)
RECURSIVE NonWsLeaves(_, _, _, _)
NonWsLeaves(r, sev, i, depth) ==
  IF i > Len(sev) THEN <<>>
  ELSE LET e == sev[i] IN
       IF e > 0 /\ r.kinds[e] = "WhiteSpace" THEN NonWsLeaves(r, sev, i + 1, depth + 1)
       ELSE IF e < 0 /\ r.kinds[-e] = "WhiteSpace" THEN NonWsLeaves(r, sev, i + 1, depth - 1)
       ELSE IF e > 0 /\ IsLeaf(r, e) /\ depth = 0 THEN <<r.locs[e]>> \o NonWsLeaves(r, sev, i + 1, depth)
       ELSE NonWsLeaves(r, sev, i + 1, depth)

JudgeProbe(r, p) ==
  LET sev == SubEvents(r.ev, p.id)
      sub == EnterProj(sev)
      lv == LeavesOf(r, sub)
      tl == IF lv = <<>> THEN <<>> ELSE <<lv[1][1], (Last(lv)[1] + Last(lv)[2]) - lv[1][1], lv[1][3]>>
      nw == NonWsLeaves(r, sev, 1, 0)
      firstLoc == IF lv = <<>> THEN <<>> ELSE lv[1]
      badUn == {k \in 1..Len(r.unsets) : p.un[k] # FirstOfKinds(sub, r.kinds, {r.unsets[k][j] : j \in 1..Len(r.unsets[k])})}
  IN (IF p.sub # sub THEN <<"iteration of a node is not the slice between its Enter and Leave", ToString(p.id)>> ELSE <<>>)
     \o (IF p.subev # sev THEN <<"event view of a node is not the slice of the tree's events", ToString(p.id)>> ELSE <<>>)
     \o (IF sub # <<>> /\ sub[1] # p.id THEN <<"node is not the first element of its own iteration", ToString(p.id)>> ELSE <<>>)
     \o (IF p.gs # SpanOf(lv) THEN <<"get_str(node) is not the span of the node's own tokens", ToString(p.id), ToString(p.gs), ToString(SpanOf(lv))>> ELSE <<>>)
     \o (IF p.gst # SpanOf(nw) THEN <<"get_str_trim(node) is not first to last non-whitespace token", ToString(p.id), ToString(p.gst), ToString(SpanOf(nw))>> ELSE <<>>)
     \o (IF p.ul # firstLoc THEN <<"unwrap_locate! is not the first token", ToString(p.id)>> ELSE <<>>)
     \o (IF badUn # {} THEN <<"unwrap_node! is not the first node of the requested kinds", ToString(p.id), ToString(CHOOSE k \in badUn : TRUE)>> ELSE <<>>)
     \* an iterator advanced p.adv times and then turned into the event view; an iterator over several start nodes
     \* (p.adv = 0: the harness did not probe this)
     \o (IF p.adv > 0 /\ p.advrest # (IF p.adv >= Len(sub) THEN <<>> ELSE SubSeq(sub, p.adv + 1, Len(sub)))
           THEN <<"iteration continued after k steps is not the rest of the node's iteration", ToString(p.id)>> ELSE <<>>)
     \o (IF p.adv > 0 /\ (EnterProj(p.advev) # p.advrest \/ ~Nested(p.advev, 1, <<>>))
           THEN <<"event view of an advanced iterator: Enter sequence differs from the plain iteration (or events not nested)", ToString(p.id), ToString(p.adv)>> ELSE <<>>)
     \o (IF p.adv > 0 /\ p.multiit # sub \o EnterProj(SubEvents(r.ev, p.other))
           THEN <<"iteration over two start nodes is not the concatenation of their iterations", ToString(p.id), ToString(p.other)>> ELSE <<>>)
     \o (IF p.adv > 0 /\ (EnterProj(p.multiev) # p.multiit \/ ~Nested(p.multiev, 1, <<>>))
           THEN <<"event view over two start nodes: Enter sequence differs from the plain iteration (or events not nested)", ToString(p.id), ToString(p.other)>> ELSE <<>>)
     \o (IF r.tryloc[p.id] # tl THEN <<"Locate::try_from(node) is not the concatenation of its tokens", ToString(p.id), ToString(r.tryloc[p.id]), ToString(tl)>> ELSE <<>>)

RECURSIVE JudgeProbes(_, _)
JudgeProbes(r, i) == IF i > Len(r.probes) THEN <<>> ELSE JudgeProbe(r, r.probes[i]) \o JudgeProbes(r, i + 1)

Judge(r) ==
  LET lv == LeavesOf(r, r.iter)
      tile == TileFrom(lv, 1, 0, r.nls, {r.nonb[i] : i \in 1..Len(r.nonb)})
  IN \* C16
     (IF r.ev = <<>> \/ r.iter = <<>> THEN <<"empty traversal">> ELSE <<>>)
     \o (IF ~Nested(r.ev, 1, <<>>) THEN <<"Enter/Leave events are not balanced and properly nested">> ELSE <<>>)
     \o (IF Cardinality({r.ev[i] : i \in 1..Len(r.ev)}) # Len(r.ev) THEN <<"a node has more than one Enter or Leave">> ELSE <<>>)
     \o (IF EnterProj(r.ev) # r.iter THEN <<"Enter sequence differs from the plain iteration">> ELSE <<>>)
     \o (IF r.ev # <<>> /\ r.iter # <<>> /\ r.ev[1] # r.iter[1] THEN <<"iteration does not start with the root">> ELSE <<>>)
     \* the traversal of a SyntaxTree is ONE tree whose root is the start symbol of its grammar: the root's Leave is the last
     \* event, and the root is a SourceText / LibraryText node (round-7 seeded change: the tree iterator of library maps started
     \* from the root's children - a forest without the root)
     \o (IF r.ev # <<>> /\ r.ev[Len(r.ev)] # -r.ev[1] THEN <<"the traversal is a forest: the Leave of the first node is not the last event">> ELSE <<>>)
     \o (IF r.ev # <<>> /\ r.ev[1] > 0 /\ r.ev[1] <= Len(r.kinds) /\ r.kinds[r.ev[1]] \notin {"SourceText", "LibraryText"}
         THEN <<"the traversal of the tree does not start with the SourceText / LibraryText root", r.kinds[r.ev[1]]>> ELSE <<>>)
     \o JudgeProbes(r, 1)
     \* C01
     \o (IF ~tile.ok THEN <<"tokens do not tile the text", ToString(tile.why)>>
         ELSE IF r.mode = "strict" /\ tile.pos # r.len THEN <<"tokens end before the end of the text", ToString(tile.pos), ToString(r.len)>>
         ELSE IF tile.pos > r.len THEN <<"tokens run past the end of the text">> ELSE <<>>)
     \o (LET pan == {i \in 1..Len(r.tryloc) : r.tryloc[i] = <<-1, -1, -1>>} IN
         IF pan # {} THEN <<"Locate::try_from panicked on a node (its tokens are not adjacent / in order)", r.kinds[CHOOSE i \in pan : TRUE]>> ELSE <<>>)
     \o (IF r.dbg # <<>> /\ r.dbg # lv THEN <<"token order of the derive(Debug) rendering differs from the iteration order">> ELSE <<>>)

VARIABLES l, nbad
Init == l = 1 /\ nbad = 0
Next ==
  /\ l <= Len(Rec)
  /\ LET r == Rec[l]
         v == Judge(r)
     IN /\ IF v = <<>> THEN nbad' = nbad
           ELSE /\ PrintT("BAD|" \o r.id \o "|" \o ToString(v))
                /\ nbad' = nbad + 1
        /\ l' = l + 1
        /\ (l = Len(Rec) => PrintT("SUMMARY|" \o ToString(l) \o "|" \o ToString(nbad')))
Spec == Init /\ [][Next]_<<l, nbad>>
=============================================================================
