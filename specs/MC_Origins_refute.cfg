SPECIFICATION Spec
CONSTANTS
  MaxPush = 4
  Lens = {0, 1, 2}
  SkipEmpty = FALSE
INVARIANT LookupAgrees
CHECK_DEADLOCK FALSE
