------------------------------- MODULE Trivia -------------------------------
(***************************************************************************)
(* The language of NEUTRAL trivia runs (C12): what may stand between two   *)
(* tokens without changing acceptance or the tree, whitespace aside.       *)
(* A run is a non-empty sequence of kinds:                                 *)
(*   blanks       sp ht ff nl crlf                                         *)
(*   comments     lcmt (one-line, carries its line break) bcmt, ecmt (the  *)
(*                empty block comment), scmt (block comment of stars)       *)
(*   argument-closed compiler directives                                   *)
(*                celldefine endcelldefine default_nettype timescale       *)
(*                unconnected_drive nounconnected_drive line define undef  *)
(*   resetall     only between top-level descriptions                      *)
(* RunText renders a run: a directive is written at the start of a line    *)
(* fragment of its own only where it has to be (`define and `line end      *)
(* their line; a directive whose text ends in a word character is          *)
(* followed by a blank), so the rendering is itself in the language.       *)
(***************************************************************************)
EXTENDS Naturals, Sequences, FiniteSets, TLC

Blanks == {"sp", "ht", "ff", "nl", "crlf"}
Comments == {"lcmt", "bcmt", "ecmt", "scmt"}
Directives == {"celldefine", "endcelldefine", "default_nettype", "timescale", "unconnected_drive", "nounconnected_drive",
               "line", "define", "undef", "define_cont", "define_crlf"}
Kinds == Blanks \cup Comments \cup Directives \cup {"resetall"}

KindText(k) ==
  CASE k = "sp" -> " " [] k = "ht" -> "\t" [] k = "ff" -> "\f" [] k = "nl" -> "\n" [] k = "crlf" -> "\r\n"
    [] k = "lcmt" -> "// c Ã¼\n" [] k = "bcmt" -> "/* c Ã© */" [] k = "ecmt" -> "/**/" [] k = "scmt" -> "/***/"
    [] k = "celldefine" -> "`celldefine " [] k = "endcelldefine" -> "`endcelldefine "
    [] k = "default_nettype" -> "`default_nettype wire " [] k = "timescale" -> "`timescale 1ns/1ps "
    [] k = "unconnected_drive" -> "`unconnected_drive pull1 " [] k = "nounconnected_drive" -> "`nounconnected_drive "
    [] k = "line" -> "`line 7 \"f.v\" 0\n" [] k = "define" -> "`define TRIVIA_M 1\n"
    \* a `define whose body continues over a backslash-newline (LF and CRLF line ends): still argument-closed
    [] k = "define_cont" -> "`define TRIVIA_N a \\\n + b\n" [] k = "define_crlf" -> "`define TRIVIA_N a \\\r\n + b\r\n" [] k = "undef" -> "`undef TRIVIA_M "
    [] k = "resetall" -> "`resetall "
    [] OTHER -> "?"

RECURSIVE RunText(_)
RunText(run) == IF run = <<>> THEN "" ELSE KindText(Head(run)) \o RunText(Tail(run))

\* top  = the position is between two top-level descriptions (or before the first / after the last)
\* prev = what stands before the run: "esc" an escaped identifier, "slash" a token ending in "/", "" anything else.
\* An escaped identifier is terminated by a space, tab or newline only (IEEE 1800-2017 5.6.1), so the run has to
\* start with one of those; after a token that ends in "/" a run may not start with a comment (the two would lex
\* as one comment opener).
TrueBlanks == {"sp", "ht", "nl", "crlf"}
WellFormed(run, top, prev) ==
  /\ run # <<>>
  /\ \A i \in 1..Len(run) : run[i] \in Kinds
  /\ (\E i \in 1..Len(run) : run[i] = "resetall") => top
  /\ (prev = "esc" => run[1] \in TrueBlanks)
  /\ (prev = "slash" => run[1] \notin Comments)
=============================================================================
