----------------------------- MODULE OriginsInd -----------------------------
(***************************************************************************)
(* Inductive argument for the origin map (C03) in a form Apalache can      *)
(* discharge: the same data structure as Origins.tla (BTreeMap<Range,      *)
(* Origin> with the overlapping-ranges ordering of range.rs, insert keeps  *)
(* the OLD key on an "equal" key), written without recursive operators,    *)
(* over UNBOUNDED integer offsets and lengths (TLC explores lengths 0..2). *)
(*                                                                         *)
(*   IndInv    the map tiles [0, total): first key starts at 0, every key  *)
(*             is non-empty, consecutive keys touch, the last ends at      *)
(*             total, and each value's range begin is its key's begin.     *)
(*   LookupOk  for every position p in [0, total) the BTreeMap probe with  *)
(*             [p, p+1) returns the entry whose key contains p, i.e.       *)
(*             origin(p) = (src, p - rb + ob) of the segment pushed there. *)
(*                                                                         *)
(* Checked by checks/c03.py (vlib.apalache_check; the step and the         *)
(* refutation in the thorough tier only):                                  *)
(*   Init => IndInv                      --init=Init    --inv=IndInv   --length=0 *)
(*   IndInv /\ Next => IndInv'           --init=IndInit --inv=IndInv   --length=1 *)
(*   IndInv => LookupOk                  --init=IndInit --inv=LookupOk --length=0 *)
(* IndInit draws a map of up to MaxEntries entries with arbitrary integer  *)
(* fields (Gen), Merge draws another tiled map of up to MaxOther entries,  *)
(* so the step is proved for every such map, not for the                   *)
(* reachable ones only.  The refutation: with SkipEmpty = FALSE (an empty  *)
(* push inserts an entry - defect D8) the step IndInv => IndInv' fails.    *)
(***************************************************************************)
EXTENDS Integers, Sequences, Apalache

CONSTANTS
  \* @type: Bool;
  SkipEmpty

VARIABLES
  \* @type: Seq({kb: Int, ke: Int, rb: Int, has: Bool, src: Int, ob: Int});
  map,
  \* @type: Int;
  total

MaxEntries == 8

\* range.rs: PartialEq
REq(ab, ae, bb, be) == IF ab <= bb THEN bb < ae ELSE ab < be
\* range.rs: Ord::cmp   -1 Less, 0 Equal, 1 Greater
RCmp(ab, ae, bb, be) == IF REq(ab, ae, bb, be) THEN 0 ELSE IF ab < bb THEN -1 ELSE IF ab > bb THEN 1 ELSE 0

\* position of the first key that is not Less than [kb, ke)  (Len + 1: none)
\* @type: (Seq({kb: Int, ke: Int, rb: Int, has: Bool, src: Int, ob: Int}), Int, Int) => Int;
FirstNotLess(m, kb, ke) ==
  LET idx == {i \in DOMAIN m : RCmp(kb, ke, m[i].kb, m[i].ke) /= 1} IN
  IF idx = {} THEN Len(m) + 1 ELSE CHOOSE i \in idx : \A j \in idx : i <= j

\* BTreeMap::insert
\* @type: (Seq({kb: Int, ke: Int, rb: Int, has: Bool, src: Int, ob: Int}), {kb: Int, ke: Int, rb: Int, has: Bool, src: Int, ob: Int}) => Seq({kb: Int, ke: Int, rb: Int, has: Bool, src: Int, ob: Int});
Insert(m, e) ==
  LET i == FirstNotLess(m, e.kb, e.ke) IN
  IF i <= Len(m) /\ RCmp(e.kb, e.ke, m[i].kb, m[i].ke) = 0
    THEN [m EXCEPT ![i] = [e EXCEPT !.kb = m[i].kb, !.ke = m[i].ke]]
    ELSE SubSeq(m, 1, i - 1) \o <<e>> \o SubSeq(m, i, Len(m))

\* PreprocessedText::push of a string of len bytes
Push(len, has, src, ob) ==
  IF SkipEmpty /\ len = 0 THEN UNCHANGED <<map, total>>
  ELSE /\ map' = Insert(map, [kb |-> total, ke |-> total + len, rb |-> total, has |-> has, src |-> src, ob |-> ob])
       /\ total' = total + len

\* "m tiles [0, t)"
\* @type: (Seq({kb: Int, ke: Int, rb: Int, has: Bool, src: Int, ob: Int}), Int) => Bool;
Tiles(m, t) ==
  /\ t >= 0
  /\ (Len(m) = 0 => t = 0)
  /\ (Len(m) > 0 => (m[1].kb = 0 /\ m[Len(m)].ke = t))
  /\ \A i \in DOMAIN m : m[i].kb < m[i].ke /\ m[i].rb = m[i].kb /\ m[i].ob >= 0
  /\ \A i \in DOMAIN m : i < Len(m) => m[i].ke = m[i + 1].kb

\* PreprocessedText::merge(other): every entry of the other map is inserted shifted by the current length.
\* The other text is ANY text that satisfies the invariant itself (it was built by the same operations).
MaxOther == 3
\* @type: (Seq({kb: Int, ke: Int, rb: Int, has: Bool, src: Int, ob: Int}), {kb: Int, ke: Int, rb: Int, has: Bool, src: Int, ob: Int}) => Seq({kb: Int, ke: Int, rb: Int, has: Bool, src: Int, ob: Int});
InsShift(m, e) == Insert(m, [e EXCEPT !.kb = @ + total, !.ke = @ + total, !.rb = @ + total])
Merge ==
  \E ot \in Int : \E o \in {Gen(MaxOther)} :     \* (bound once: a LET would instantiate Gen at every occurrence)
    /\ Tiles(o, ot)
    /\ map' = ApaFoldSeqLeft(InsShift, map, o)
    /\ total' = total + ot

Init == map = <<>> /\ total = 0
Next == /\ Len(map) + MaxOther <= MaxEntries
        /\ \/ \E len \in Int : \E src \in Int : \E ob \in Int : \E has \in BOOLEAN :
                len >= 0 /\ ob >= 0 /\ Push(len, has, src, ob)
           \/ Merge

IndInv == Len(map) <= MaxEntries /\ Tiles(map, total)

IndInit == /\ map = Gen(MaxEntries)
           /\ total = Gen(1)
           /\ IndInv

\* the probe of PreprocessedText::origin(p) lands on the entry whose key contains p
LookupOk ==
  \A p \in Int : (0 <= p /\ p < total) =>
     LET i == FirstNotLess(map, p, p + 1) IN
       /\ i <= Len(map)
       /\ RCmp(p, p + 1, map[i].kb, map[i].ke) = 0
       /\ map[i].kb <= p /\ p < map[i].ke
       /\ p - map[i].rb + map[i].ob >= 0

ConstInitFixed == SkipEmpty = TRUE
ConstInitBroken == SkipEmpty = FALSE
=============================================================================
