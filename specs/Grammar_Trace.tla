---------------------------- MODULE Grammar_Trace ----------------------------
(***************************************************************************)
(* Trace validation for Grammar (C02).  A record carries a derivation      *)
(* (start symbol, budget, the sequence of alternative numbers chosen for   *)
(* the leftmost non-terminal), the tokens the harness rendered from it     *)
(* with their byte offsets, and the projection of the tree the real parser *)
(* returned: acceptance, the <<node kind, identifier>> pairs of all nodes  *)
(* whose kind is tracked, and the non-whitespace leaves (text, offset).    *)
(* TLC replays the derivation with the specification (every step must be   *)
(* an Expand of Grammar), recomputes tokens and expectation, and compares. *)
(***************************************************************************)
EXTENDS Grammar, Json, IOUtils
Rec == ndJsonDeserialize(IOEnv.TRACE)

Count(seq, x) == Cardinality({i \in 1..Len(seq) : seq[i] = x})
SeqSet(seq) == {seq[i] : i \in 1..Len(seq)}

Judge(r) ==
  LET der == Derive(Shift(DInit(r.start, r.budget)), r.choices, 1)
      d == der.d
      toks == [i \in 1..Len(d.toks) |-> d.toks[i].t]
      exp == d.expect
      obs == SelectSeq(r.obs.pairs, LAMBDA p : p[1] \in Tracked)
      diff == {p \in SeqSet(exp) \cup SeqSet(obs) : Count(exp, p) # Count(obs, p)}
      words == {i \in 1..Len(d.toks) : d.toks[i].r \in {"id", "kw"}}
      badWord == {i \in words : Cardinality({j \in 1..Len(r.obs.leaves) : r.obs.leaves[j][2] = r.offs[i] /\ r.obs.leaves[j][1] = toks[i]}) # 1}
  IN IF ~der.ok THEN <<"record is not a derivation of the grammar">>
     ELSE IF toks # r.toks THEN <<"rendered tokens differ from the tokens of the derivation">>
     ELSE IF r.obs.outcome # "ok" THEN <<"sentence of the covered grammar is not accepted", r.obs.outcome, ToString(r.obs.err)>>
     ELSE (IF diff # {} THEN LET p == CHOOSE p \in diff : TRUE
                             IN <<"construct not classified exactly once under its production", ToString(p), "expected", ToString(Count(exp, p)), "found", ToString(Count(obs, p))>> ELSE <<>>)
          \o (IF badWord # {} THEN LET i == CHOOSE i \in badWord : TRUE IN <<"identifier/keyword is not exactly one leaf", toks[i], ToString(r.offs[i])>> ELSE <<>>)

VARIABLES l, nbad
Init == l = 1 /\ nbad = 0
Next ==
  /\ l <= Len(Rec)
  /\ LET r == Rec[l]
         v == Judge(r)
     IN /\ IF v = <<>> THEN nbad' = nbad
           ELSE /\ PrintT("BAD|" \o r.id \o "|" \o ToString(v))
                /\ nbad' = nbad + 1
        /\ l' = l + 1
        /\ (l = Len(Rec) => PrintT("SUMMARY|" \o ToString(l) \o "|" \o ToString(nbad')))
Spec == Init /\ [][Next]_<<l, nbad>>
=============================================================================
