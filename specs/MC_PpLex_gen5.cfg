SPECIFICATION Spec
CONSTANTS
  Dev = {}
  MaxLen = 5
  Alphabet <- Alpha9
  Export = TRUE
INVARIANT ExportInv
CHECK_DEADLOCK FALSE
