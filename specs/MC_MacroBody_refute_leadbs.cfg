SPECIFICATION Spec
CONSTANTS
  Dev = {"LeadingBackslashDropped"}
  MaxLen = 5
  Alphabet <- Alpha9
  Export = FALSE
  Formals <- F2
INVARIANTS MachineEqualsRef
CHECK_DEADLOCK FALSE
