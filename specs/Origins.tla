------------------------------ MODULE Origins ------------------------------
(***************************************************************************)
(* The origin map of the preprocessor (PreprocessedText in                 *)
(* sv-parser-pp/src/preprocess.rs, Range in range.rs) as a data-structure  *)
(* state machine.                                                          *)
(*                                                                         *)
(*   truth   segs : sequence of [start, len, has, src, ob] - what was      *)
(*                  appended, in order (the property-level meaning)        *)
(*   impl    map  : key-ordered sequence of [kb, ke, rb, has, src, ob] -   *)
(*                  BTreeMap<Range, Origin> with the ordering of range.rs  *)
(*                  transcribed literally: two ranges are "equal" when     *)
(*                  they overlap (or start at the same offset), insert on  *)
(*                  an "equal" key replaces the VALUE and keeps the OLD    *)
(*                  KEY, lookup probes with [p, p+1)                       *)
(* Operator core; wrappers: MC_Origins (model checking), Origins_Trace     *)
(* (replay of the push/merge hook events of real runs).                    *)
(***************************************************************************)
EXTENDS Naturals, Sequences, FiniteSets, TLC

\* range.rs: PartialEq
REq(ab, ae, bb, be) == IF ab <= bb THEN bb < ae ELSE ab < be
\* range.rs: Ord::cmp
RCmp(ab, ae, bb, be) == IF REq(ab, ae, bb, be) THEN "eq" ELSE IF ab < bb THEN "lt" ELSE IF ab > bb THEN "gt" ELSE "eq"

\* position of the first key that is not Less than [kb, ke)
RECURSIVE FindIdx(_, _, _, _)
FindIdx(m, kb, ke, i) ==
  IF i > Len(m) THEN <<"end", i>>
  ELSE LET c == RCmp(kb, ke, m[i].kb, m[i].ke) IN
       IF c = "gt" THEN FindIdx(m, kb, ke, i + 1) ELSE <<c, i>>

\* BTreeMap::insert: an equal key keeps the old key and replaces the value
Insert(m, e) ==
  LET r == FindIdx(m, e.kb, e.ke, 1) IN
  IF r[1] = "eq" THEN [m EXCEPT ![r[2]] = [e EXCEPT !.kb = m[r[2]].kb, !.ke = m[r[2]].ke]]
  ELSE SubSeq(m, 1, r[2] - 1) \o <<e>> \o SubSeq(m, r[2], Len(m))

Entry(base, len, has, src, ob) == [kb |-> base, ke |-> base + len, rb |-> base, has |-> has, src |-> src, ob |-> ob]

EmptyText == [segs |-> <<>>, map |-> <<>>, total |-> 0]

\* PreprocessedText::push (SkipEmpty = the repaired behaviour: an empty string inserts nothing)
Push(t, len, has, src, ob, SkipEmpty) ==
  IF SkipEmpty /\ len = 0 THEN t
  ELSE [segs  |-> Append(t.segs, [start |-> t.total, len |-> len, has |-> has, src |-> src, ob |-> ob]),
        map   |-> Insert(t.map, Entry(t.total, len, has, src, ob)),
        total |-> t.total + len]

\* PreprocessedText::merge: append other's text; insert every entry shifted by the base
RECURSIVE MergeMap(_, _, _, _)
MergeMap(m, other, base, i) ==
  IF i > Len(other) THEN m
  ELSE LET e == other[i] IN
       MergeMap(Insert(m, [e EXCEPT !.kb = @ + base, !.ke = @ + base, !.rb = @ + base]), other, base, i + 1)
Merge(t, o) ==
  [segs  |-> t.segs \o [i \in 1..Len(o.segs) |-> [o.segs[i] EXCEPT !.start = @ + t.total]],
   map   |-> MergeMap(t.map, o.map, t.total, 1),
   total |-> t.total + o.total]

\* PreprocessedText::origin(pos): <<>> (None) or <<src, offset>>
ImplLookup(t, p) ==
  LET r == FindIdx(t.map, p, p + 1, 1) IN
  IF r[1] # "eq" THEN <<>>
  ELSE LET e == t.map[r[2]] IN IF e.has THEN <<e.src, p - e.rb + e.ob>> ELSE <<>>

\* what the property says: the segment that contains p
RECURSIVE SpecFind(_, _, _)
SpecFind(s, p, i) ==
  IF i > Len(s) THEN <<>>
  ELSE IF s[i].start <= p /\ p < s[i].start + s[i].len
         THEN (IF s[i].has THEN <<s[i].src, p - s[i].start + s[i].ob>> ELSE <<>>)
  ELSE SpecFind(s, p, i + 1)
SpecLookup(t, p) == SpecFind(t.segs, p, 1)

LookupAgreesOn(t) == \A p \in 0..(t.total - 1) : ImplLookup(t, p) = SpecLookup(t, p)
=============================================================================
