SPECIFICATION Spec
CONSTANTS
  NThreads = 2
  Shared <- SharedVer
  InputOf <- Inputs2
INVARIANT NonInterference
CHECK_DEADLOCK FALSE
