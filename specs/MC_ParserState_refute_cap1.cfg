SPECIFICATION Spec
CONSTANTS
  Inputs <- AllInputs
  HistLen = 1
  Cap = 1
  Unpaired <- NoUnpaired
  Resets <- AllResets
INVARIANT ScopeAgrees
CHECK_DEADLOCK FALSE
