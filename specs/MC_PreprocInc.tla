---------------------------- MODULE MC_PreprocInc ----------------------------
(***************************************************************************)
(* Model checking / generation wrapper for `include, recursion depth and   *)
(* the flow of the define table across files (C09, C10, C11).              *)
(*                                                                         *)
(* Universe "graph": files F0 (top), F1, F2 and macros M1, M2.  Every file *)
(* is  tok ; X ; tok  where X is nothing, an `include of a file, a usage   *)
(* of a macro, or a (re)definition of M1; every macro body is a token, a   *)
(* usage of a macro, or an `include of a file ("who uses/includes whom").  *)
(* With Limit = 3 every cycle hits the limit within the bound.             *)
(* Universe "resolve": F0 includes "x.svh" which exists in any subset of   *)
(* {cwd, d1, d2} (different content each), for every ordering of the       *)
(* include paths, with and without ignore_include.                         *)
(* The frame-stack machine is compared with a big-step recursive reference *)
(* in which Include wrapping arises structurally (one wrapper per return   *)
(* through an `include), depth counters are threaded through both kinds of *)
(* frame, and file resolution is stated declaratively.                     *)
(***************************************************************************)
EXTENDS Preproc, Json

CONSTANTS Mode, Export

VARIABLES x0, x1, x2, b1, b2, present, dirs, ign, phase, st
vars == <<x0, x1, x2, b1, b2, present, dirs, ign, phase, st>>

MkItem(k, n) == [k |-> k, n |-> n, a |-> <<>>, b |-> <<>>, f |-> 0, ts |-> IF k = "tok" THEN <<n>> ELSE <<>>,
                 to |-> IF k = "tok" THEN <<0>> ELSE <<>>, off |-> 0, ln |-> 0, ln2 |-> 0, g |-> FALSE]
T(k, n) == [k |-> k, n |-> n, a |-> <<>>, g |-> FALSE]
DefItem(n, toks) == [MkItem("def", n) EXCEPT !.b = <<[src |-> "", toks |-> toks, boff |-> 0]>>]
FileName(i) == IF i = 0 THEN "top.sv" ELSE IF i = 1 THEN "f1.svh" ELSE "f2.svh"

\* X choices: <<"none">>, <<"inc", i>>, <<"use", j>>, <<"def">> (redefines M1 as a plain token)
XChoices == {<<"none", 0>>, <<"inc", 0>>, <<"inc", 1>>, <<"inc", 2>>, <<"use", 1>>, <<"use", 2>>, <<"def", 1>>}
\* body choices: <<"tok">>, <<"use", j>>, <<"inc", i>>
BChoices == {<<"tok", 0>>, <<"use", 1>>, <<"use", 2>>, <<"inc", 0>>, <<"inc", 1>>, <<"inc", 2>>}

XItems(x, tag) ==
  CASE x[1] = "inc" -> <<MkItem("inc", FileName(x[2]))>>
    [] x[1] = "use" -> <<MkItem("use", IF x[2] = 1 THEN "M1" ELSE "M2")>>
    [] x[1] = "def" -> <<DefItem("M1", <<T("lit", "r" \o tag)>>)>>
    [] OTHER -> <<>>
Body(b, tag) ==
  CASE b[1] = "use" -> <<T("use", IF b[2] = 1 THEN "M1" ELSE "M2")>>
    [] b[1] = "inc" -> <<T("inc", FileName(b[2]))>>
    [] OTHER -> <<T("lit", "m" \o tag)>>

\* every item on its own line
Lines(p) == [i \in 1..Len(p) |-> [p[i] EXCEPT !.ln = i, !.ln2 = i]]
FileOf(i, x) == Lines(<<MkItem("tok", "a" \o ToString(i))>> \o XItems(x, ToString(i)) \o <<MkItem("tok", "z" \o ToString(i))>>)
TopOf(x) == Lines(<<DefItem("M1", Body(b1, "1")), DefItem("M2", Body(b2, "2")), MkItem("tok", "a0")>> \o XItems(x, "0") \o <<MkItem("tok", "z0")>>)

GraphEnv == [files |-> <<[n |-> "top.sv", items |-> TopOf(x0)], [n |-> "f1.svh", items |-> FileOf(1, x1)], [n |-> "f2.svh", items |-> FileOf(2, x2)]>>,
             fs |-> <<[p |-> "top.sv", kind |-> "file"], [p |-> "f1.svh", kind |-> "file"], [p |-> "f2.svh", kind |-> "file"]>>,
             incdirs |-> <<>>, ign |-> FALSE, strip |-> FALSE, top |-> "top.sv", predef |-> <<>>]

\* "resolve" universe
Places == {"cwd", "d1", "d2"}
PathAt(pl) == IF pl = "cwd" THEN "x.svh" ELSE pl \o "/x.svh"
DirOrders == {<<>>, <<"d1">>, <<"d2">>, <<"d1", "d2">>, <<"d2", "d1">>}
ResolveEnv ==
  LET ps == {pl \in Places : pl \in present} IN
  [files |-> <<[n |-> "top.sv", items |-> Lines(<<DefItem("K", <<T("lit", "k0")>>), MkItem("tok", "a0"), MkItem("inc", "x.svh"), MkItem("use", "Q"), MkItem("tok", "z0")>>)]>>
             \o (IF "cwd" \in ps THEN <<[n |-> "x.svh", items |-> Lines(<<MkItem("tok", "in_cwd"), MkItem("use", "K"), DefItem("Q", <<T("lit", "q_cwd")>>)>>)]>> ELSE <<>>)
             \o (IF "d1" \in ps THEN <<[n |-> "d1/x.svh", items |-> Lines(<<MkItem("tok", "in_d1"), MkItem("use", "K"), DefItem("Q", <<T("lit", "q_d1")>>)>>)]>> ELSE <<>>)
             \o (IF "d2" \in ps THEN <<[n |-> "d2/x.svh", items |-> Lines(<<MkItem("tok", "in_d2"), MkItem("use", "K"), DefItem("Q", <<T("lit", "q_d2")>>)>>)]>> ELSE <<>>),
   fs |-> <<[p |-> "top.sv", kind |-> "file"]>>
          \o (IF "cwd" \in ps THEN <<[p |-> "x.svh", kind |-> "file"]>> ELSE <<>>)
          \o (IF "d1" \in ps THEN <<[p |-> "d1/x.svh", kind |-> "file"]>> ELSE <<>>)
          \o (IF "d2" \in ps THEN <<[p |-> "d2/x.svh", kind |-> "file"]>> ELSE <<>>),
   incdirs |-> dirs, ign |-> ign, strip |-> FALSE, top |-> "top.sv", predef |-> <<>>]

Env == IF Mode = "graph" THEN GraphEnv ELSE ResolveEnv

Init ==
  /\ phase = "run"
  /\ IF Mode = "graph"
       THEN x0 \in XChoices /\ x1 \in XChoices /\ x2 \in XChoices /\ b1 \in BChoices /\ b2 \in BChoices
            /\ present = {} /\ dirs = <<>> /\ ign = FALSE
       ELSE x0 = <<"none", 0>> /\ x1 = <<"none", 0>> /\ x2 = <<"none", 0>> /\ b1 = <<"tok", 0>> /\ b2 = <<"tok", 0>>
            /\ present \in SUBSET Places /\ dirs \in DirOrders /\ ign \in BOOLEAN
  /\ st = InitState(Env)
RunStep == st.status = "run" /\ st' = Step(st, Env) /\ UNCHANGED <<x0, x1, x2, b1, b2, present, dirs, ign, phase>>
Next == RunStep
Spec == Init /\ [][Next]_vars
FairSpec == Spec /\ WF_vars(Next)

-----------------------------------------------------------------------------
(* big-step reference *)

ROk(t, d) == [ok |-> TRUE, toks |-> t, defs |-> d, err |-> <<>>]
RErr(e) == [ok |-> FALSE, toks |-> <<>>, defs |-> <<>>, err |-> e]

\* declarative file resolution (IEEE 22.4 as the property states it)
Candidates(e, name) == <<name>> \o [i \in 1..Len(e.incdirs) |-> e.incdirs[i] \o "/" \o name]
ResolveRef(e, name) ==
  LET c == Candidates(e, name)
      S == {i \in 1..Len(c) : FsKind(e, c[i]) # "none"}
  IN IF S = {} THEN name ELSE c[CHOOSE i \in S : \A j \in S : i <= j]

RECURSIVE RefItems(_, _, _, _, _, _, _)
RefItems(e, items, i, defs, inc, res, ignore) ==
  IF i > Len(items) THEN ROk(<<>>, defs)
  ELSE LET it == items[i]
           Seq2(r1) == IF ~r1.ok THEN r1
                       ELSE LET r2 == RefItems(e, items, i + 1, r1.defs, inc, res, ignore) IN
                            IF ~r2.ok THEN r2 ELSE ROk(r1.toks \o r2.toks, r2.defs)
       IN
    CASE it.k = "tok" -> Seq2(ROk(<<it.n>>, defs))
      [] it.k = "def" -> Seq2(ROk(<<>>, DefSet(defs, [n |-> it.n, none |-> FALSE, f |-> 0, a |-> <<>>, b |-> it.b, file |-> "", off |-> 0])))
      [] it.k = "use" ->
           LET d == DefIdx(defs, it.n) IN
           IF res + 1 > Limit THEN RErr(<<"ExceedRecursiveLimit">>)
           ELSE IF d = 0 THEN RErr(<<"DefineNotFound", it.n>>)
           ELSE Seq2(RefItems(e, BodyItems(defs[d].b[1].toks), 1, defs, inc, res + 1, FALSE))
      [] it.k = "inc" ->
           IF ignore THEN Seq2(ROk(<<>>, defs))
           ELSE LET p == ResolveRef(e, it.n) IN
                IF FsKind(e, p) = "none" THEN RErr(<<"Include", <<"File", p>>>>)
                ELSE IF inc + 1 > Limit THEN RErr(<<"Include", <<"ExceedRecursiveLimit">>>>)
                ELSE LET r == RefItems(e, FileItems(e, p), 1, defs, inc + 1, res, FALSE) IN
                     IF ~r.ok THEN RErr(<<"Include", r.err>>) ELSE Seq2(r)
      [] OTHER -> Seq2(ROk(<<>>, defs))

Ref == RefItems(Env, FileItems(Env, "top.sv"), 1, <<>>, 0, 0, Env.ign)

MachineEqualsRef ==
  st.status # "run" =>
     LET r == Ref IN
     IF r.ok THEN st.status = "ok" /\ OutToks(st) = r.toks /\ DefNames(st.defs) = DefNames(r.defs)
     ELSE st.status = "err" /\ st.err = r.err

\* C09: no frame ever exceeds the limit, and runs terminate within a bound that depends only on
\* the limit and the program size (no hang, no unbounded stack)
DepthBounded == \A i \in 1..Len(st.stack) : st.stack[i].inc <= Limit /\ st.stack[i].res <= Limit
StackBounded == Len(st.stack) <= 2 * Limit + 1
StepBound == st.steps <= 4000
Terminates == <>(st.status # "run")

\* C10: with ignore_include the top file's literal includes contribute nothing and nothing is read
IgnoreInert == (Mode = "resolve" /\ ign /\ st.status = "ok") => \A i \in 1..Len(st.out) : st.out[i].t \notin {"in_cwd", "in_d1", "in_d2"}

ExportInv == (Export /\ st.status # "run") =>
  PrintT("REPLAY|" \o ToJson(Env))
=============================================================================
