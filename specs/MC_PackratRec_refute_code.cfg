SPECIFICATION Spec
CONSTANTS
  FlagsInKey = FALSE
  MaxLen = 4
  Caps <- CapsAll
INVARIANT TransparentInv
CHECK_DEADLOCK FALSE
