SPECIFICATION Spec
CONSTANTS
  Dev = {}
  MaxLen = 6
  Alphabet <- Alpha9
  Export = FALSE
  Formals <- F2
INVARIANTS CoverInv
POSTCONDITION CoverPost
CHECK_DEADLOCK FALSE
