---------------------------- MODULE MC_PreprocRel ----------------------------
(***************************************************************************)
(* Relational properties of the preprocessor, checked on the model for     *)
(* every pair of programs A, B of a mixed universe (tokens with and        *)
(* without following blank, comments, a string, `define/`undef/usage of A, *)
(* conditionals on A, a kept directive):                                   *)
(*   ConcatEquiv       C11: running B with the table A returned equals the *)
(*                     B part of running A \o B; same final table          *)
(*   StripOnlyComments C18: strip_comments changes nothing but comments    *)
(*   Fixpoint          C06: a second run over the output is the identity   *)
(*   NoCommentLeft     C18: no comment token in the stripped output        *)
(* Each program is built item by item (prefix sharing); the runs are       *)
(* evaluated with the big-step iteration Run of the machine.               *)
(***************************************************************************)
EXTENDS Preproc, Json

CONSTANTS MaxLen, Export

VARIABLES a, b, cs, phase
vars == <<a, b, cs, phase>>

MkItem(k, n, g) == [k |-> k, n |-> n, a |-> <<>>, b |-> <<>>, f |-> 0, ts |-> IF k \in {"tok", "str", "cmt", "kept"} THEN <<n>> ELSE <<>>,
                    to |-> IF k \in {"tok", "str", "cmt", "kept"} THEN <<0>> ELSE <<>>, off |-> 0, ln |-> 0, ln2 |-> 0, g |-> g]
T(k, n) == [k |-> k, n |-> n, a |-> <<>>, g |-> FALSE]
DefA == [MkItem("def", "A", FALSE) EXCEPT !.b = <<[src |-> "va", toks |-> <<T("lit", "va")>>, boff |-> 0]>>, !.ts = <<"`", "define", "A", "va">>, !.to = <<0, 1, 8, 10>>]
UndefA == [MkItem("undef", "A", FALSE) EXCEPT !.ts = <<"`", "undef", "A">>, !.to = <<0, 1, 7>>]
Plain == {MkItem("tok", "t", FALSE), MkItem("tok", "u", TRUE), MkItem("cmt", "/*c*/", FALSE), MkItem("cmt", "/*d*/", TRUE),
          DefA, UndefA, MkItem("use", "A", FALSE), MkItem("nl", "", FALSE)}
Ifs == {MkItem("ifdef", "A", FALSE), MkItem("ifndef", "A", FALSE)}

Lines(p) == [i \in 1..Len(p) |-> [p[i] EXCEPT !.ln = i, !.ln2 = i]]
EnvOf(p, predef, strip) == [files |-> <<[n |-> "top.sv", items |-> Lines(p)]>>, fs |-> <<[p |-> "top.sv", kind |-> "file"]>>,
                            incdirs |-> <<>>, ign |-> FALSE, strip |-> strip, top |-> "top.sv", predef |-> predef]

Init == a = <<>> /\ b = <<>> /\ cs = 0 /\ phase = "A"
Cur == IF phase = "A" THEN a ELSE b
Put(it) == IF phase = "A" THEN a' = Append(a, it) /\ UNCHANGED b ELSE b' = Append(b, it) /\ UNCHANGED a
Build ==
  /\ phase \in {"A", "B"}
  /\ \/ /\ Len(Cur) < MaxLen
        /\ \/ \E it \in Plain : Put(it) /\ UNCHANGED <<cs, phase>>
           \/ \E it \in Ifs : cs = 0 /\ Put(it) /\ cs' = 1 /\ UNCHANGED phase
           \/ cs = 1 /\ Put(MkItem("else", "", FALSE)) /\ cs' = 2 /\ UNCHANGED phase
           \/ cs \in {1, 2} /\ Put(MkItem("endif", "", FALSE)) /\ cs' = 0 /\ UNCHANGED phase
     \/ /\ cs = 0 /\ Cur # <<>>
        /\ phase' = IF phase = "A" THEN "B" ELSE "done"
        /\ UNCHANGED <<a, b, cs>>
Next == Build
Spec == Init /\ [][Next]_vars

\* a file ends with a newline outside any conditional (the renderer adds it; in the model: an "nl" item)
NL == MkItem("nl", "", FALSE)
RA == Run(EnvOf(a \o <<NL>>, <<>>, FALSE))
RB == Run(EnvOf(b \o <<NL>>, RA.defs, FALSE))
RAB == Run(EnvOf(a \o <<NL>> \o b \o <<NL>>, <<>>, FALSE))

ConcatEquiv ==
  phase = "done" =>
    IF RA.status = "err" THEN RAB.status = "err" /\ RAB.err = RA.err
    ELSE IF RB.status = "err" THEN RAB.status = "err" /\ RAB.err = RB.err
    ELSE /\ RAB.status = "ok"
         /\ OutToks(RAB) = OutToks(RA) \o OutToks(RB)
         /\ DefTable(RAB) = DefTable(RB)

PS == Run(EnvOf(a \o <<NL>> \o b \o <<NL>>, <<>>, TRUE))
StripOnlyComments ==
  phase = "done" =>
    /\ PS.status = RAB.status /\ PS.err = RAB.err
    /\ (PS.status = "ok" => OutNonCmtToks(PS) = OutNonCmtToks(RAB) /\ DefTable(PS) = DefTable(RAB))
NoCommentLeft == (phase = "done" /\ PS.status = "ok") => \A i \in 1..Len(PS.out) : ~PS.out[i].c

Second == Run(EnvOf(RAB.oi, <<>>, FALSE))
Fixpoint == (phase = "done" /\ RAB.status = "ok") => Second.status = "ok" /\ OutToks(Second) = OutToks(RAB)

ExportInv == (Export /\ phase = "done") =>
  PrintT("REPLAY|" \o ToJson([a |-> a, b |-> b]))
=============================================================================
