---------------------------- MODULE MC_ParserState ----------------------------
(* Inputs for model checking ParserState; see the cfg files for the four quadrants:                   *)
(*   faithful            all resets, paired scopes, unbounded memo: ScopeAgrees, EntryFresh, DirectiveNeutral hold *)
(*   refute_entry_ver    Entry does not clear the version stack: a history with an open `begin_keywords    *)
(*                       changes the probe's verdicts (what C07 is about)                                *)
(*   refute_unpaired     the macro-name site returns early without its pop (defect D4, repaired): `resetall *)
(*                       leaves DIR on the stack and un-reserves the following keywords (C12/C13)           *)
(*   refute_cap1         memo capacity 1: a re-parsed `begin_keywords is pushed twice, popped once (D11, C17) *)
EXTENDS ParserState
Sl(t, tr) == [tok |-> t, triv |-> tr]
InA == <<Sl("t", <<"kw_old">>), Sl("id_old", <<"endkw">>), Sl("id_old", <<>>)>>
InB == <<Sl("t", <<"resetall">>), Sl("id_old", <<"dir", "sp">>)>>
InC == <<Sl("t", <<"kw_old", "sp">>), Sl("id_old", <<>>)>>                       \* leaves the region open
InD == <<Sl("id_old", <<"dir">>), Sl("t", <<"baddir">>), Sl("id_old", <<>>)>>
InE == <<Sl("t", <<"sp", "kw_old", "dir">>), Sl("id_old", <<"endkw", "kw_old">>), Sl("id_old", <<"endkw">>), Sl("id_old", <<>>)>>
AllInputs == {InA, InB, InC, InD, InE}
AllResets == {"memo", "dir", "ver"}
NoVerReset == {"memo", "dir"}
NoUnpaired == {}
UsageUnpaired == {"usage"}
=============================================================================
