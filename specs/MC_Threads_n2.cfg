SPECIFICATION Spec
CONSTANTS
  NThreads = 2
  Shared <- NoShared
  InputOf <- Inputs2
INVARIANT NonInterference
CHECK_DEADLOCK FALSE
