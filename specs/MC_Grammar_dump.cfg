SPECIFICATION Spec
CONSTANTS
  Start = "ident"
  Budget = 0
  Collapse = FALSE
  Export = FALSE
INVARIANT WellFormed
INVARIANT GrammarDump
CHECK_DEADLOCK FALSE
