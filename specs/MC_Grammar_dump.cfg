SPECIFICATION Spec
CONSTANTS
  Start = "expr"
  Budget = 0
  Collapse = FALSE
  Export = FALSE
INVARIANT WellFormed
INVARIANT GrammarDump
CHECK_DEADLOCK FALSE
