---------------------------- MODULE KeywordScope ----------------------------
(***************************************************************************)
(* Reserved words and the keyword set in force (C13; IEEE 1800-2017 22.14, *)
(* Annex B).  The tables are written as a base list plus the increments of *)
(* each later standard - independently of sv-parser-parser/src/keywords.rs *)
(* (the keyword sweep of the check compares the two word by word).         *)
(*                                                                         *)
(* The set in force at a point of the source is the one named by the       *)
(* innermost `begin_keywords region open there, IN SOURCE ORDER, the       *)
(* 1800-2017 set outside any region; macro names are checked against the   *)
(* directive names instead.                                                *)
(***************************************************************************)
EXTENDS Naturals, Sequences, FiniteSets, TLC

V1364_1995 == {"always", "and", "assign", "begin", "buf", "bufif0", "bufif1", "case", "casex", "casez", "cmos", "deassign", "default", "defparam", "disable", "edge", "else", "end", "endcase", "endfunction", "endmodule", "endprimitive", "endspecify", "endtable", "endtask", "event", "for", "force", "forever", "fork", "function", "highz0", "highz1", "if", "ifnone", "initial", "inout", "input", "integer", "join", "large", "macromodule", "medium", "module", "nand", "negedge", "nmos", "nor", "not", "notif0", "notif1", "or", "output", "parameter", "pmos", "posedge", "primitive", "pull0", "pull1", "pulldown", "pullup", "rcmos", "real", "realtime", "reg", "release", "repeat", "rnmos", "rpmos", "rtran", "rtranif0", "rtranif1", "scalared", "small", "specify", "specparam", "strong0", "strong1", "supply0", "supply1", "table", "task", "time", "tran", "tranif0", "tranif1", "tri", "tri0", "tri1", "triand", "trior", "trireg", "vectored", "wait", "wand", "weak0", "weak1", "while", "wire", "wor", "xnor", "xor"}
Add2001 == {"automatic", "endgenerate", "generate", "genvar", "localparam", "noshowcancelled", "pulsestyle_onevent", "pulsestyle_ondetect", "showcancelled", "signed", "unsigned"}
ConfigWords == {"cell", "config", "design", "endconfig", "incdir", "include", "instance", "liblist", "library", "use"}
Add1364_2005 == {"uwire"}
Add1800_2005 == {"alias", "always_comb", "always_ff", "always_latch", "assert", "assume", "before", "bind", "bins", "binsof", "bit", "break", "byte", "chandle", "class", "clocking", "const", "constraint", "context", "continue", "cover", "covergroup", "coverpoint", "cross", "dist", "do", "endclass", "endclocking", "endgroup", "endinterface", "endpackage", "endprogram", "endproperty", "endsequence", "enum", "expect", "export", "extends", "extern", "final", "first_match", "foreach", "forkjoin", "iff", "ignore_bins", "illegal_bins", "import", "inside", "int", "interface", "intersect", "join_any", "join_none", "local", "logic", "longint", "matches", "modport", "new", "null", "package", "packed", "priority", "program", "property", "protected", "pure", "rand", "randc", "randcase", "randsequence", "ref", "return", "sequence", "shortint", "shortreal", "solve", "static", "string", "struct", "super", "tagged", "this", "throughout", "timeprecision", "timeunit", "type", "typedef", "union", "unique", "var", "virtual", "void", "wait_order", "wildcard", "with", "within"}
Add1800_2009 == {"accept_on", "checker", "endchecker", "eventually", "global", "implies", "let", "nexttime", "reject_on", "restrict", "s_always", "s_eventually", "s_nexttime", "s_until", "s_until_with", "strong", "sync_accept_on", "sync_reject_on", "unique0", "until", "until_with", "untyped", "weak"}
Add1800_2012 == {"implements", "interconnect", "nettype", "soft"}

Versions == {"1364-1995", "1364-2001", "1364-2001-noconfig", "1364-2005", "1800-2005", "1800-2009", "1800-2012", "1800-2017"}
Default == "1800-2017"

Reserved(v) ==
  CASE v = "1364-1995"          -> V1364_1995
    [] v = "1364-2001-noconfig" -> V1364_1995 \cup Add2001
    [] v = "1364-2001"          -> V1364_1995 \cup Add2001 \cup ConfigWords
    [] v = "1364-2005"          -> V1364_1995 \cup Add2001 \cup ConfigWords \cup Add1364_2005
    [] v = "1800-2005"          -> V1364_1995 \cup Add2001 \cup ConfigWords \cup Add1364_2005 \cup Add1800_2005
    [] v = "1800-2009"          -> V1364_1995 \cup Add2001 \cup ConfigWords \cup Add1364_2005 \cup Add1800_2005 \cup Add1800_2009
    [] OTHER                    -> V1364_1995 \cup Add2001 \cup ConfigWords \cup Add1364_2005 \cup Add1800_2005 \cup Add1800_2009 \cup Add1800_2012

DirectiveNames == {"begin_keywords", "celldefine", "default_nettype", "define", "else", "elsif", "end_keywords", "endcelldefine", "endif",
                   "ifdef", "ifndef", "include", "line", "nounconnected_drive", "pragma", "resetall", "timescale", "unconnected_drive",
                   "undef", "undefineall"}

AllWords == Reserved(Default)

\* events in source order: <<"begin", v>> | <<"end">> | <<"id", text>> | <<"macro", text>>
\* replay: stack of open regions; result = the identifiers that are reserved where they stand
RECURSIVE Offenders(_, _, _)
Top(st) == IF st = <<>> THEN Default ELSE st[Len(st)]
Offenders(evs, i, st) ==
  IF i > Len(evs) THEN <<>>
  ELSE LET e == evs[i] IN
    IF e[1] = "begin" THEN Offenders(evs, i + 1, Append(st, e[2]))
    ELSE IF e[1] = "end" THEN Offenders(evs, i + 1, IF st = <<>> THEN st ELSE SubSeq(st, 1, Len(st) - 1))
    ELSE IF e[1] = "id" /\ e[2] \in Reserved(Top(st)) THEN <<<<e[2], Top(st)>>>> \o Offenders(evs, i + 1, st)
    ELSE IF e[1] = "macro" /\ e[2] \in DirectiveNames THEN <<<<e[2], "directive names">>>> \o Offenders(evs, i + 1, st)
    ELSE Offenders(evs, i + 1, st)

\* the set in force after replaying a prefix of region events (for the keyword sweep)
RECURSIVE StackAfter(_, _, _)
StackAfter(evs, i, st) ==
  IF i > Len(evs) THEN st
  ELSE IF evs[i][1] = "begin" THEN StackAfter(evs, i + 1, Append(st, evs[i][2]))
  ELSE IF evs[i][1] = "end" THEN StackAfter(evs, i + 1, IF st = <<>> THEN st ELSE SubSeq(st, 1, Len(st) - 1))
  ELSE StackAfter(evs, i + 1, st)
InForceAfter(evs) == Top(StackAfter(evs, 1, <<>>))
=============================================================================
