------------------------------- MODULE MC_Tree -------------------------------
(***************************************************************************)
(* Model checking of the traversal machines over ALL ordered trees with up *)
(* to MaxNodes nodes (a node may have an empty child list - the Vec/Option *)
(* case).  A tree is grown node by node (parent chosen among the existing  *)
(* nodes, children ordered by creation), then both machines are stepped,   *)
(* one pop per TLC transition, from the root and from a chosen sub-node.   *)
(***************************************************************************)
EXTENDS Tree
CONSTANTS MaxNodes
VARIABLES ch, n, phase, start, it, ev
vars == <<ch, n, phase, start, it, ev>>

Init == ch = <<<<>>>> /\ n = 1 /\ phase = "grow" /\ start = 1 /\ it = IterInit(1) /\ ev = EventInit(1)
Grow ==
  /\ phase = "grow" /\ n < MaxNodes
  /\ \E p \in 1..n : ch' = Append([ch EXCEPT ![p] = Append(@, n + 1)], <<>>)
  /\ n' = n + 1 /\ UNCHANGED <<phase, start, it, ev>>
Begin ==
  /\ phase = "grow"
  /\ \E s \in 1..n : start' = s /\ it' = IterInit(s) /\ ev' = EventInit(s)
  /\ phase' = "walk" /\ UNCHANGED <<ch, n>>
Walk ==
  /\ phase = "walk"
  /\ \/ ~IterDone(it) /\ it' = IterStep(ch, it) /\ UNCHANGED ev
     \/ ~EventDone(ev) /\ ev' = EventStep(ch, ev) /\ UNCHANGED it
  /\ UNCHANGED <<ch, n, phase, start>>
Next == Grow \/ Begin \/ Walk
Spec == Init /\ [][Next]_vars

IterIsPrefix == phase = "walk" => IsPrefix(it.out, Preorder(ch, start))
IterComplete == (phase = "walk" /\ IterDone(it)) => it.out = Preorder(ch, start)
EventIsPrefix == phase = "walk" => IsPrefix(ev.out, EventsOf(ch, start))
EventComplete == (phase = "walk" /\ EventDone(ev)) =>
                    /\ ev.out = EventsOf(ch, start)
                    /\ Nested(ev.out, 1, <<>>) /\ OnceEach(ev.out)
                    /\ EnterProj(ev.out) = Preorder(ch, start)
\* sub-iteration = slice of the whole tree's stream between the node's Enter and Leave
SubIsSlice == (phase = "walk" /\ EventDone(ev)) => ev.out = SubEvents(EventsOf(ch, 1), start)
NodeFirst == (phase = "walk" /\ it.out # <<>>) => it.out[1] = start
=============================================================================
