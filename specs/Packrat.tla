------------------------------ MODULE Packrat ------------------------------
(***************************************************************************)
(* The packrat memo table exactly as nom-packrat 0.7 implements it         *)
(* (PackratStorage: HashMap + VecDeque of keys, capacity `size`) and a     *)
(* small PEG machine that uses it the way #[packrat_parser] does.          *)
(*                                                                         *)
(*   insert(key, value): if size is set and keys.len() > size - 1, the     *)
(*   OLDEST key of the queue is popped and removed from the map - also     *)
(*   when the same key was inserted again later (the queue keeps           *)
(*   duplicates, so a fresh entry can be deleted); then the key is pushed  *)
(*   and the map entry written.                                            *)
(*                                                                         *)
(* PEG expressions: [op, a, b] with op in                                  *)
(*   "tok" (a = character)  "seq" "alt" (a, b = expressions)  "eps"        *)
(*   "call" (a = rule name)                                                *)
(*   hidden state (a counter, like the thread-local version stack depth):  *)
(*   "push" "pop" (always succeed, consume nothing), "isnew" (succeeds iff *)
(*   the counter is 0)                                                     *)
(* A grammar maps rule names to [e, memo].  Backtracking rewinds the       *)
(* position; the memo table and the hidden state keep what the failed      *)
(* alternative did to them.                                                *)
(***************************************************************************)
EXTENDS Naturals, Sequences, FiniteSets, TLC

EmptyMemo(size) == [map |-> {}, keys |-> <<>>, size |-> size]
Lookup(m, k) == LET S == {e \in m.map : e[1] = k} IN IF S = {} THEN <<>> ELSE <<(CHOOSE e \in S : TRUE)[2]>>
Remove(map, k) == {e \in map : e[1] # k}
Insert(m, k, v) ==
  LET evict == m.size > 0 /\ Len(m.keys) > m.size - 1
      keys1 == IF evict THEN Tail(m.keys) ELSE m.keys
      map1 == IF evict THEN Remove(m.map, Head(m.keys)) ELSE m.map
  IN [m EXCEPT !.keys = Append(keys1, k), !.map = Remove(map1, k) \cup {<<k, v>>}]

Tok(c) == [op |-> "tok", a |-> c, b |-> ""]
Seq2(x, y) == [op |-> "seq", a |-> x, b |-> y]
Alt2(x, y) == [op |-> "alt", a |-> x, b |-> y]
Call(n) == [op |-> "call", a |-> n, b |-> ""]
Eps == [op |-> "eps", a |-> "", b |-> ""]
Push == [op |-> "push", a |-> "", b |-> ""]
Pop == [op |-> "pop", a |-> "", b |-> ""]
IsNew == [op |-> "isnew", a |-> "", b |-> ""]

\* result: [ok, pos, st], st = [memo, hid]
RECURSIVE Eval(_, _, _, _, _)
Eval(g, inp, e, pos, st) ==
  CASE e.op = "eps"   -> [ok |-> TRUE, pos |-> pos, st |-> st]
    [] e.op = "tok"   -> IF pos <= Len(inp) /\ inp[pos] = e.a THEN [ok |-> TRUE, pos |-> pos + 1, st |-> st]
                         ELSE [ok |-> FALSE, pos |-> pos, st |-> st]
    [] e.op = "push"  -> [ok |-> TRUE, pos |-> pos, st |-> [st EXCEPT !.hid = @ + 1]]
    [] e.op = "pop"   -> [ok |-> TRUE, pos |-> pos, st |-> [st EXCEPT !.hid = IF @ > 0 THEN @ - 1 ELSE 0]]
    [] e.op = "isnew" -> [ok |-> st.hid = 0, pos |-> pos, st |-> st]
    [] e.op = "seq"   -> LET r1 == Eval(g, inp, e.a, pos, st) IN
                         IF ~r1.ok THEN r1 ELSE Eval(g, inp, e.b, r1.pos, r1.st)
    [] e.op = "alt"   -> LET r1 == Eval(g, inp, e.a, pos, st) IN
                         IF r1.ok THEN r1 ELSE Eval(g, inp, e.b, pos, r1.st)      \* position rewinds, state does not
    [] e.op = "call"  -> LET rule == g[e.a] IN
                         IF ~rule.memo THEN Eval(g, inp, rule.e, pos, st)
                         ELSE LET k == <<e.a, pos>>
                                  hit == Lookup(st.memo, k) IN
                              IF hit # <<>> THEN [ok |-> hit[1][1], pos |-> hit[1][2], st |-> st]     \* the stored result; nothing is executed
                              ELSE LET r == Eval(g, inp, rule.e, pos, st) IN
                                   [r EXCEPT !.st.memo = Insert(r.st.memo, k, <<r.ok, r.pos>>)]

Parse(g, inp, size) == LET r == Eval(g, inp, Call("S"), 1, [memo |-> EmptyMemo(size), hid |-> 0])
                       IN <<r.ok, r.pos>>
Transparent(g, inp, caps) == \A c \in caps : Parse(g, inp, c) = Parse(g, inp, 0)
=============================================================================
