SPECIFICATION Spec
CONSTANTS
  MaxPush = 6
  Lens = {0, 1, 2, 3}
  SkipEmpty = TRUE
INVARIANT LookupAgrees
INVARIANT KeysSorted
CHECK_DEADLOCK FALSE
