SPECIFICATION Spec
CONSTANTS
  Limit = 3
  Dev = {}
  MaxLen = 5
  MaxDepth = 2
  Wide = "hostile"
  Export = TRUE
  Tables <- TablesOne
INVARIANT ExportInv
CHECK_DEADLOCK FALSE
