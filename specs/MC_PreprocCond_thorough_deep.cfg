SPECIFICATION Spec
CONSTANTS
  Limit = 3
  Dev = {}
  MaxLen = 6
  MaxDepth = 3
  Wide = "deep"
  Export = FALSE
  Tables <- TablesQuick
INVARIANT MachineEqualsRef
INVARIANT StepBound
INVARIANT DeadInert
CHECK_DEADLOCK FALSE
