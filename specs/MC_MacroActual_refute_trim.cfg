SPECIFICATION Spec
CONSTANTS
  DevA = {"TrimDropsLineBreak"}
  MaxLen = 5
INVARIANTS ClosedInv
CHECK_DEADLOCK FALSE
