SPECIFICATION Spec
CONSTANTS
  Start = "expr"
  Budget = 5
  Collapse = TRUE
  Export = TRUE
INVARIANT BudgetOk
INVARIANT IdsDistinct
INVARIANT ExportInv
CHECK_DEADLOCK FALSE
