--------------------------- MODULE MC_PreprocCond ---------------------------
(***************************************************************************)
(* Model checking / generation wrapper for the conditional-compilation     *)
(* part of Preproc (C04, also C11/C18 on the same universe).               *)
(*                                                                         *)
(* Phase "gen": TLC builds every well-nested flat program over the item    *)
(* universe (MaxLen items, nesting <= MaxDepth) and picks an initial       *)
(* define table.  Phase "run": the Preproc machine is stepped (one item    *)
(* per TLC transition) until it terminates.  Invariants compare the        *)
(* machine with the declarative IEEE 22.6 reference SelectRef, and state   *)
(* the dead-code and define-table properties.                              *)
(* With Export = TRUE every complete program is printed once as JSON for   *)
(* replay into the real library (GEN).                                     *)
(***************************************************************************)
EXTENDS Preproc, Json

CONSTANTS MaxLen, MaxDepth, Wide, Export, Tables

VARIABLES prog, cs, phase, tab, st

vars == <<prog, cs, phase, tab, st>>

MkItem(k, n) == [k |-> k, n |-> n, a |-> <<>>, b |-> <<>>, f |-> 0, ts |-> IF k = "tok" THEN <<n>> ELSE <<>>,
                 to |-> IF k = "tok" THEN <<0>> ELSE <<>>, off |-> 0, ln |-> 0, ln2 |-> 0, g |-> FALSE]
LitTok(n) == [k |-> "lit", n |-> n, a |-> <<>>, g |-> FALSE]
MkDef(n) == [MkItem("def", n) EXCEPT !.b = <<[src |-> "v" \o n, toks |-> <<LitTok("v" \o n)>>, boff |-> 0]>>]

\* three item universes: "wide" (all plain items, names A B __LINE__), "deep" (few items so that
\* longer programs with nested chains are reached), "hostile" (items that fail when live: a usage
\* of an undefined macro and an include of a missing file - they must be inert in dead branches)
\* "skel": conditional skeletons only (one plain token kind, one name) so that long, deeply nested chains
\* with empty branches are enumerated exhaustively
Names == IF Wide = "wide" THEN {"A", "B", "__LINE__"} ELSE IF Wide = "deep" THEN {"A", "B"} ELSE IF Wide = "skel" THEN {"A"} ELSE {"A", "__FILE__"}
Plain ==
  IF Wide = "wide"
  THEN {MkItem("tok", "t"), MkDef("A"), MkDef("B"), MkItem("undef", "A"), MkItem("undef", "B"),
        MkItem("undefall", ""), MkItem("use", "A"), MkItem("use", "B")}
  ELSE IF Wide = "deep"
  THEN {MkItem("tok", "t"), MkDef("A"), MkItem("undef", "A"), MkItem("use", "A")}
  ELSE IF Wide = "skel"
  THEN {MkItem("tok", "t")}
  ELSE {MkItem("tok", "t"), MkDef("A"), MkItem("use", "Z"), MkItem("inc", "missing.svh")}
Ifs == {MkItem(kk, nn) : kk \in {"ifdef", "ifndef"}, nn \in Names}
Elsifs == {MkItem("elsif", nn) : nn \in Names}

\* initial define tables over {A, B}: absent / caller-supplied without value / with body
Entry(n, mode) ==
  IF mode = 1 THEN <<[n |-> n, none |-> TRUE, f |-> 0, a |-> <<>>, b |-> <<>>, file |-> "", off |-> 0]>>
  ELSE IF mode = 2 THEN <<[n |-> n, none |-> FALSE, f |-> 0, a |-> <<>>,
                           b |-> <<[src |-> "p" \o n, toks |-> <<LitTok("p" \o n)>>, boff |-> 0]>>, file |-> "", off |-> 0]>>
  ELSE <<>>
Table(t) == Entry("A", t[1]) \o Entry("B", t[2])

\* every item on its own line
Lines(p) == [i \in 1..Len(p) |-> [p[i] EXCEPT !.ln = i, !.ln2 = i]]
EnvOf(p, t) == [files |-> <<[n |-> "top.sv", items |-> Lines(p)]>>, fs |-> <<[p |-> "top.sv", kind |-> "file"]>>,
                incdirs |-> <<>>, ign |-> FALSE, strip |-> FALSE, top |-> "top.sv", predef |-> Table(t)]

Init == prog = <<>> /\ cs = <<>> /\ phase = "gen" /\ tab = <<0, 0>> /\ st = [status |-> "none"]

Add(it) == prog' = Append(prog, it) /\ UNCHANGED <<phase, tab, st>>
Gen ==
  /\ phase = "gen"
  /\ \/ /\ Len(prog) < MaxLen
        /\ \/ \E it \in Plain : Add(it) /\ UNCHANGED cs
           \/ \E it \in Ifs : Len(cs) < MaxDepth /\ Add(it) /\ cs' = Append(cs, FALSE)
           \/ \E it \in Elsifs : cs # <<>> /\ ~Last(cs) /\ Add(it) /\ UNCHANGED cs
           \/ cs # <<>> /\ ~Last(cs) /\ Add(MkItem("else", "")) /\ cs' = [cs EXCEPT ![Len(cs)] = TRUE]
           \/ cs # <<>> /\ Add(MkItem("endif", "")) /\ cs' = Front(cs)
     \/ /\ cs = <<>> /\ prog # <<>>
        /\ \E t \in Tables :
             /\ tab' = t
             /\ phase' = "run"
             /\ st' = InitState(EnvOf(prog, t))
        /\ UNCHANGED <<prog, cs>>

RunStep ==
  /\ phase = "run"
  /\ st.status = "run"
  /\ st' = Step(st, EnvOf(prog, tab))
  /\ UNCHANGED <<prog, cs, phase, tab>>

Next == Gen \/ RunStep
Spec == Init /\ [][Next]_vars

-----------------------------------------------------------------------------
(* Declarative reference for IEEE 22.6, by structural recursion on matched  *)
(* `ifdef ... `endif blocks (independent of the flag-stack machine).        *)

\* index of the directive (elsif/else/endif) that ends the branch starting at j, at nesting 0
RECURSIVE BranchEnd(_, _, _)
BranchEnd(p, j, d) ==
  IF p[j].k \in {"ifdef", "ifndef"} THEN BranchEnd(p, j + 1, d + 1)
  ELSE IF p[j].k = "endif" THEN (IF d = 0 THEN j ELSE BranchEnd(p, j + 1, d - 1))
  ELSE IF p[j].k \in {"elsif", "else"} /\ d = 0 THEN j
  ELSE BranchEnd(p, j + 1, d)
RECURSIVE ChainEnd(_, _)
ChainEnd(p, j) == LET e == BranchEnd(p, j, 0) IN IF p[e].k = "endif" THEN e ELSE ChainEnd(p, e + 1)

\* result: [ok, toks, defs, err]
RECURSIVE Sel(_, _, _, _), PickBranch(_, _, _, _)
RefOk(toks, defs) == [ok |-> TRUE, toks |-> toks, defs |-> defs, err |-> <<>>]
Sel(p, i, hi, defs) ==    \* process items i..hi of p
  IF i > hi THEN RefOk(<<>>, defs)
  ELSE LET it == p[i] IN
    IF it.k \in {"ifdef", "ifndef"} THEN
         LET ce == ChainEnd(p, i + 1)
             br == PickBranch(p, i, defs, FALSE)       \* <<lo, hi>> of the chosen branch or <<>>
             r1 == IF br = <<>> THEN RefOk(<<>>, defs) ELSE Sel(p, br[1], br[2], defs)
         IN IF ~r1.ok THEN r1
            ELSE LET r2 == Sel(p, ce + 1, hi, r1.defs) IN
                 IF ~r2.ok THEN r2 ELSE RefOk(r1.toks \o r2.toks, r2.defs)
    ELSE LET r1 ==
               CASE it.k = "tok" -> RefOk(<<it.n>>, defs)
                 [] it.k = "def" -> RefOk(<<>>, IF it.n \in Predefined THEN defs ELSE DefSet(defs, [n |-> it.n, none |-> FALSE, f |-> it.f, a |-> it.a, b |-> it.b, file |-> "top.sv", off |-> 0]))
                 [] it.k = "undef" -> RefOk(<<>>, DefDel(defs, it.n))
                 [] it.k = "undefall" -> RefOk(<<>>, <<>>)
                 [] it.k = "use" ->
                      LET d == DefIdx(defs, it.n) IN
                      IF d = 0 THEN [ok |-> FALSE, toks |-> <<>>, defs |-> defs, err |-> <<"DefineNotFound", it.n>>]
                      ELSE IF defs[d].none \/ defs[d].b = <<>> THEN RefOk(<<>>, defs)
                      ELSE RefOk(<<defs[d].b[1].toks[1].n>>, defs)
                 [] it.k = "inc" -> [ok |-> FALSE, toks |-> <<>>, defs |-> defs, err |-> <<"Include", <<"File", it.n>>>>]
                 [] OTHER -> RefOk(<<>>, defs)
         IN IF ~r1.ok THEN r1
            ELSE LET r2 == Sel(p, i + 1, hi, r1.defs) IN
                 IF ~r2.ok THEN r2 ELSE RefOk(r1.toks \o r2.toks, r2.defs)
\* the first branch of the chain starting at directive j whose condition holds, else the `else branch
PickBranch(p, j, defs, unused) ==
  LET e == BranchEnd(p, j + 1, 0)
      holds == CASE p[j].k = "ifdef"  -> IsDefined(defs, p[j].n)
                 [] p[j].k = "ifndef" -> ~IsDefined(defs, p[j].n)
                 [] p[j].k = "elsif"  -> IsDefined(defs, p[j].n)
                 [] OTHER -> TRUE       \* `else
  IN IF holds THEN <<j + 1, e - 1>>
     ELSE IF p[e].k = "endif" THEN <<>>
     ELSE PickBranch(p, e, defs, unused)

Ref == Sel(prog, 1, Len(prog), Table(tab))

\* only tokens that are not part of kept directives (`define/`undef texts carry no ts in this model)
MachineEqualsRef ==
  (phase = "run" /\ st.status # "run") =>
     LET r == Ref IN
     IF r.ok THEN /\ st.status = "ok"
                  /\ OutToks(st) = r.toks
                  /\ DefTable(st) = {DefView(r.defs[i]) : i \in 1..Len(r.defs)}
     ELSE st.status = "err" /\ st.err = r.err

\* a machine takes at most 3 steps per item (usage, body token, return) plus the final return (termination, no include/recursion here)
StepBound == phase = "run" => st.steps <= 3 * Len(prog) + 1

\* Defines, undefs and usages in discarded branches have no effect and raise no error:
\* replacing every item of a dead region by a token changes neither output nor table.
\* (checked through the reference: it never evaluates the dead items at all; here we check the
\*  machine agrees, which MachineEqualsRef does; DeadInert re-states the "no error" half.)
DeadInert ==
  (phase = "run" /\ st.status = "err") => ~Ref.ok

ExportInv == (Export /\ phase = "run" /\ st.status \notin {"run", "none"} /\ tab = CHOOSE t \in Tables : TRUE)
               => PrintT("REPLAY|" \o ToJson([i \in 1..Len(prog) |-> <<prog[i].k, prog[i].n>>]))

TablesQuick == {<<0, 0>>, <<1, 2>>, <<2, 0>>}
TablesAll == {<<a, b>> : a \in 0..2, b \in 0..2}
TablesOne == {<<0, 0>>}
TablesA == {<<0, 0>>, <<2, 0>>}
=============================================================================
