SPECIFICATION Spec
CONSTANTS
  Limit = 64
  Dev = {}
CHECK_DEADLOCK FALSE
