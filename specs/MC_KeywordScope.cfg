SPECIFICATION Spec
INVARIANT Monotone
INVARIANT Sizes
INVARIANT InForceSane
INVARIANT Innermost
CHECK_DEADLOCK FALSE
