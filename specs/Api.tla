-------------------------------- MODULE Api --------------------------------
(***************************************************************************)
(* The public entry points of sv-parser as equations between compositions  *)
(* (sv-parser/src/lib.rs, sv-parser-pp/src/preprocess.rs).                 *)
(*                                                                         *)
(*   preprocess(path, D, I, strip, ign)  = preprocess_str(read(path), path, D, I, ign, strip, 0, 0)  *)
(*   parse_sv(path, D, I, ign, inc)      = parse_sv_str(read(path), path, D, I, ign, inc)            *)
(*                                       = parse_sv_pp(preprocess(path, D, I, strip = FALSE, ign), inc) *)
(*   and the same for the parse_lib family.                                *)
(* The equations are written on NAMED flags; where a signature takes them  *)
(* positionally the harness places them from the signature.                *)
(*                                                                         *)
(* An observed call is [fn, fam, ign, strip, inc, res] with res an outcome *)
(* record [outcome, fp, defs, err, text]; fp is a fingerprint of the whole *)
(* tree (node kinds, Enter/Leave stream, token offsets/lengths/lines).     *)
(* Outcome set: "ok" | "err" - nothing else (no panic, no crash).          *)
(***************************************************************************)
EXTENDS Naturals, Sequences, FiniteSets, TLC

Outcomes == {"ok", "err"}

SameResult(a, b) ==
  /\ a.outcome = b.outcome
  /\ a.outcome = "ok" => (a.fp = b.fp /\ a.defs = b.defs /\ a.text = b.text)
  /\ a.outcome = "err" => a.err = b.err

\* the class of calls that the equations force to agree: family (pp / sv / lib) and NAMED flags
\* (strip is always FALSE for the parse families, allow_incomplete does not exist for pp)
Class(c) == <<c.fam, c.ign, c.strip, c.inc>>

\* C20: all calls of one class return the same thing
ClassAgreement(calls) ==
  {<<i, j>> \in (1..Len(calls)) \X (1..Len(calls)) :
      i < j /\ Class(calls[i]) = Class(calls[j]) /\ ~SameResult(calls[i].res, calls[j].res)}

\* C15 (used here because the same calls are at hand): whenever strict mode accepts, incomplete mode
\* returns an equal tree; incomplete mode never reports Parse
IncompleteAgreement(calls) ==
  {<<i, j>> \in (1..Len(calls)) \X (1..Len(calls)) :
      /\ calls[i].fam = calls[j].fam /\ calls[i].fam # "pp" /\ calls[i].ign = calls[j].ign
      /\ ~calls[i].inc /\ calls[j].inc /\ calls[i].res.outcome = "ok"
      /\ ~SameResult(calls[i].res, calls[j].res)}
IncompleteNeverParseError(calls) ==
  {i \in 1..Len(calls) : calls[i].inc /\ calls[i].res.outcome = "err" /\ calls[i].res.err[1] = "Parse"}

\* C15, third clause: appending unparsable text after an accepted source leaves the tree, whitespace
\* aside, unchanged (skel = node kinds and non-whitespace token texts, WhiteSpace subtrees removed)
JunkDisagreement(strict, junked) ==
  IF strict.outcome # "ok" THEN {}
  ELSE {i \in 1..Len(junked) : junked[i].outcome # "ok" \/ junked[i].skel # strict.skel}

\* C14: an untokenisable byte inserted at a token boundary (file f, byte offset off) of an accepted
\* source makes strict parsing fail with Parse(Some(f', p)), f' = f and p <= off; deleting a closing
\* bracket or block-closing keyword makes it fail with Parse(_)
BadByteJudgement(f, off, res) ==
  IF res.outcome # "err" THEN <<"source with an untokenisable byte is not rejected", res.outcome>>
  ELSE IF res.err[1] # "Parse" THEN <<"rejection is not Error::Parse", ToString(res.err)>>
  ELSE IF res.err[2] = <<>> THEN <<"Error::Parse without location">>
  ELSE IF res.err[2][1][1] # f THEN <<"Error::Parse names another file than the one holding the byte", res.err[2][1][1], f>>
  ELSE IF res.err[2][1][2] > off THEN <<"Error::Parse located after the byte", ToString(res.err[2][1][2]), ToString(off)>>
  ELSE <<>>
DeletionJudgement(res) ==
  IF res.outcome # "err" THEN <<"source with a deleted closing delimiter is not rejected", res.outcome>>
  ELSE IF res.err[1] # "Parse" THEN <<"rejection is not Error::Parse", ToString(res.err)>>
  ELSE <<>>

\* C07: the result of a call after any history on the same thread equals the result on a fresh thread
HistoryJudgement(fresh, after) ==
  IF fresh.outcome \notin Outcomes \/ after.outcome \notin Outcomes THEN <<"outcome is not Ok or a structured Error", fresh.outcome, after.outcome>>
  ELSE IF ~SameResult(fresh, after) THEN <<"result depends on what the thread did before", fresh.outcome, after.outcome, ToString(fresh.err), ToString(after.err)>>
  ELSE <<>>

\* C19: a call running concurrently with others returns what it returns alone; its hook-event
\* projection (the thread's own sequence of parser-state events) is the solo one as well
ConcurrencyJudgement(solo, conc) ==
  IF solo.outcome \notin Outcomes \/ conc.outcome \notin Outcomes THEN <<"outcome is not Ok or a structured Error", solo.outcome, conc.outcome>>
  ELSE IF ~SameResult(solo, conc) THEN <<"concurrent result differs from the solo result", solo.outcome, conc.outcome>>
  ELSE IF solo.events # conc.events THEN <<"thread's parser-state events differ from the solo run">>
  ELSE <<>>

Typed(calls) == {i \in 1..Len(calls) : calls[i].res.outcome \notin Outcomes}
=============================================================================
