---------------------------- MODULE ParserState ----------------------------
(***************************************************************************)
(* The thread-local state of the parser runtime (sv-parser-parser/src/     *)
(* lib.rs, utils.rs) under backtracking:                                   *)
(*   ver   CURRENT_VERSION stack  (`begin_keywords pushes, `end_keywords    *)
(*         pops, a macro-name position pushes/pops "DIR")                   *)
(*   dir   IN_DIRECTIVE stack depth                                        *)
(*   memo  packrat table: set of keys + FIFO queue of keys, capacity Cap    *)
(*         (0 = unbounded); key = <<parser, position, in_directive>>        *)
(* and an abstract client that exercises exactly the feature of the real   *)
(* grammar that matters here: the source is a sequence of slots (a token   *)
(* followed by trivia); the first alternative parses slots 1..fail and     *)
(* fails, the second alternative re-parses from the start (position        *)
(* rewinds, STATE DOES NOT), so trivia - including directives with side    *)
(* effects - is parsed twice unless the memo table remembers it.           *)
(*                                                                         *)
(* A slot is [tok, triv]: tok in "t" (plain token), "id_old" (an           *)
(* identifier that is a reserved word only in the NEW keyword set),        *)
(* triv a sequence over "sp", "kw_old" (`begin_keywords "<old>"),           *)
(* "endkw", "resetall" / "baddir" (a directive whose macro-name position   *)
(* fails to parse), "dir" (any other argument-closed directive).           *)
(*                                                                         *)
(* Calls: a history is a sequence of inputs parsed one after the other on  *)
(* the same thread; every call starts with Entry, which performs the       *)
(* resets in the constant Resets ({"memo","dir","ver"} in the code).       *)
(* Unpaired: the set of directive sites whose early return skips the pop   *)
(* ({} after the repair of D4; {"usage"} is the refutation config).        *)
(***************************************************************************)
EXTENDS Naturals, Sequences, FiniteSets, TLC

CONSTANTS Inputs,     \* set of inputs (sequences of slots) a history is drawn from
          HistLen,    \* number of calls in a history (the last one is the probe)
          Cap,        \* memo capacity, 0 = unbounded
          Unpaired,   \* directive sites that leave a "DIR" entry behind on failure
          Resets      \* what Entry resets

VARIABLES hist, ci, pc, ver, dir, memo, keys, log, idres

vars == <<hist, ci, pc, ver, dir, memo, keys, log, idres>>

Input == hist[ci]
N == Len(Input)

\* ---- reference: the keyword set in force at slot i, in SOURCE order, default NEW ----
RECURSIVE RefStack(_, _, _, _)
RefStack(inp, i, j, st) ==
  IF j >= i THEN st ELSE
  LET tr == inp[j].triv
      F[k \in 0..Len(tr)] == IF k = 0 THEN st ELSE
            IF tr[k] = "kw_old" THEN Append(F[k - 1], "OLD")
            ELSE IF tr[k] = "endkw" /\ F[k - 1] # <<>> THEN SubSeq(F[k - 1], 1, Len(F[k - 1]) - 1)
            ELSE F[k - 1]
  IN RefStack(inp, i, j + 1, F[Len(tr)])
InForce(inp, i) == LET s == RefStack(inp, i, 1, <<>>) IN IF s = <<>> THEN "NEW" ELSE s[Len(s)]

\* ---- implementation-shaped state ----
Top == IF ver = <<>> THEN "NEW" ELSE ver[Len(ver)]

\* nom-packrat insert: evict the oldest key when the queue is full
Ins(k) == IF Cap = 0 THEN /\ memo' = memo \cup {k} /\ keys' = Append(keys, k)
          ELSE IF Len(keys) > Cap - 1
               THEN /\ keys' = Append(Tail(keys), k) /\ memo' = (memo \ {Head(keys)}) \cup {k}
               ELSE /\ keys' = Append(keys, k) /\ memo' = memo \cup {k}

StartPc == [alt |-> 0, slot |-> 1, tix |-> 0, fail |-> 0]

Init == /\ hist \in [1..HistLen -> Inputs]
        /\ ci = 1 /\ pc = StartPc /\ ver = <<>> /\ dir = 0 /\ memo = {} /\ keys = <<>> /\ log = <<>>
        /\ idres = [i \in 1..8 |-> "none"]

\* Entry: init() of the entry points
Entry == /\ pc.alt = 0
         /\ ver' = IF "ver" \in Resets THEN <<>> ELSE ver
         /\ dir' = IF "dir" \in Resets THEN 0 ELSE dir
         /\ memo' = IF "memo" \in Resets THEN {} ELSE memo
         /\ keys' = IF "memo" \in Resets THEN <<>> ELSE keys
         /\ log' = <<>>
         /\ \E f \in 1..N : pc' = [alt |-> 1, slot |-> 1, tix |-> 0, fail |-> f]
         /\ UNCHANGED <<hist, ci, idres>>

\* a token: identifiers are checked against the keyword set on top of the version stack;
\* simple_identifier is itself memoised, so a re-parsed identifier reuses its first verdict
Tok == /\ pc.alt \in {1, 2} /\ pc.slot <= N /\ pc.tix = 0
       /\ IF Input[pc.slot].tok # "id_old" THEN UNCHANGED <<log, memo, keys, idres>>
          ELSE IF <<"id", pc.slot, dir>> \in memo
               THEN /\ log' = Append(log, <<pc.slot, idres[pc.slot]>>) /\ UNCHANGED <<memo, keys, idres>>
               ELSE /\ log' = Append(log, <<pc.slot, Top>>) /\ Ins(<<"id", pc.slot, dir>>) /\ idres' = [idres EXCEPT ![pc.slot] = Top]
       /\ pc' = [pc EXCEPT !.tix = 1]
       /\ UNCHANGED <<hist, ci, ver, dir>>

\* one element of the trivia after the token (white_space is memoised)
Triv == /\ pc.alt \in {1, 2} /\ pc.slot <= N /\ pc.tix >= 1 /\ pc.tix <= Len(Input[pc.slot].triv)
        /\ LET k == <<"ws", pc.slot * 10 + pc.tix, dir>>
               e == Input[pc.slot].triv[pc.tix] IN
           IF k \in memo THEN UNCHANGED <<ver, memo, keys>>      \* memo hit: the side effect is skipped
           ELSE /\ Ins(k)
                /\ ver' = IF e = "kw_old" THEN Append(ver, "OLD")
                          ELSE IF e = "endkw" THEN (IF ver = <<>> THEN ver ELSE SubSeq(ver, 1, Len(ver) - 1))
                          ELSE IF e \in {"resetall", "baddir"} /\ "usage" \in Unpaired THEN Append(ver, "DIR")
                          ELSE ver       \* a directive's own push("DIR")/pop and begin_/end_directive are paired
        /\ pc' = [pc EXCEPT !.tix = pc.tix + 1]
        /\ UNCHANGED <<hist, ci, dir, log, idres>>

\* end of a slot: fail the first alternative at slot `fail` (backtrack to the start), or go on
Advance ==
  /\ pc.alt \in {1, 2} /\ pc.slot <= N /\ pc.tix = Len(Input[pc.slot].triv) + 1
  /\ pc' = IF pc.alt = 1 /\ pc.slot = pc.fail THEN [alt |-> 2, slot |-> 1, tix |-> 0, fail |-> pc.fail]
           ELSE IF pc.slot = N THEN [pc EXCEPT !.alt = 3] ELSE [pc EXCEPT !.slot = pc.slot + 1, !.tix = 0]
  /\ UNCHANGED <<hist, ci, ver, dir, memo, keys, log, idres>>

CallDone == pc.alt = 3
NextCall == /\ CallDone /\ ci < HistLen
            /\ ci' = ci + 1 /\ pc' = StartPc
            /\ UNCHANGED <<hist, ver, dir, memo, keys, log, idres>>

Next == Entry \/ Tok \/ Triv \/ Advance \/ NextCall
Spec == Init /\ [][Next]_vars

\* ---- properties ----
\* the verdict that counts for a slot is the last one logged for it
FinalVerdict(s) == LET S == {i \in 1..Len(log) : log[i][1] = s} IN log[CHOOSE i \in S : \A j \in S : j <= i][2]
Slots == {log[i][1] : i \in 1..Len(log)}
\* C13: every identifier is judged under the keyword set in force where it stands (source order)
\* C07: ... whatever calls preceded on this thread (hist[1..ci-1] is arbitrary)
ScopeAgrees == CallDone => \A s \in Slots : FinalVerdict(s) = InForce(Input, s)
\* C07: every call starts from the initial state
EntryFresh == (pc.alt \in {1, 2} /\ pc.slot = 1 /\ pc.tix = 0 /\ pc.alt = 1) => (ver = <<>> /\ dir = 0 /\ memo = {})
\* C12: a directive other than `begin_keywords/`end_keywords leaves the version stack as it found it
DirectiveNeutral == \A i \in 1..Len(ver) : ver[i] # "DIR"
=============================================================================
