SPECIFICATION Spec
CONSTANTS
  Limit = 3
  Dev = {}
  MaxLen = 4
  MaxDepth = 2
  Wide = "wide"
  Export = TRUE
  Tables <- TablesOne
INVARIANT ExportInv
CHECK_DEADLOCK FALSE
