SPECIFICATION Spec
CONSTANTS
  Limit = 8
  Dev = {}
  MaxLen = 3
  Export = TRUE
INVARIANT ExportInv
CHECK_DEADLOCK FALSE
