SPECIFICATION Spec
CONSTANTS
  Dev = {}
  MaxLen = 5
  Alphabet <- Alpha9
  Export = FALSE
  Formals <- F2
INVARIANTS MachineEqualsRef PlainCopied
CHECK_DEADLOCK FALSE
