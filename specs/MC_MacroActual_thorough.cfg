SPECIFICATION Spec
CONSTANTS
  DevA = {}
  MaxLen = 7
INVARIANTS ClosedInv TrailingInv MinimalInv
CHECK_DEADLOCK FALSE
