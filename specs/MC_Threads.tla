------------------------------ MODULE MC_Threads ------------------------------
EXTENDS Threads
Sl(t, tr) == [tok |-> t, triv |-> tr]
In1 == <<Sl("t", <<"kw_old">>), Sl("id_old", <<"endkw">>), Sl("id_old", <<>>)>>
In2 == <<Sl("t", <<"sp">>), Sl("id_old", <<>>), Sl("id_old", <<>>)>>
In3 == <<Sl("t", <<"kw_old", "sp">>), Sl("id_old", <<>>)>>
Inputs2 == <<In1, In2>>
Inputs3 == <<In1, In2, In3>>
NoShared == {}
SharedVer == {"ver"}
SharedMemo == {"memo"}
=============================================================================
