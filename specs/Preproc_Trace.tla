--------------------------- MODULE Preproc_Trace ---------------------------
(***************************************************************************)
(* Trace validation for Preproc: every record carries the abstract input   *)
(* (files as item sequences, file system, flags, caller defines) and what  *)
(* the real library returned for its rendering.  The record is judged by   *)
(* running the specification on the abstract input.  Non-blocking monitor: *)
(* a rejected record is reported ("BAD|id|reasons") and the run goes *)
(* on; the driver requires the SUMMARY line to account for every record.   *)
(*                                                                         *)
(* Record kinds                                                            *)
(*   run     obs = outcome/tokens+origins/table/error of one call          *)
(*   strip   obs, obs2 = the same input with strip_comments off / on (C18) *)
(*   concat  obs = A then B fed with A's table, obs2 = A \o B (C11)        *)
(*   fix     obs = a run, obs2 = the run on obs's output text (C06)        *)
(***************************************************************************)
EXTENDS Preproc, Json, IOUtils

Rec == ndJsonDeserialize(IOEnv.TRACE)

Digits == {"0", "1", "2", "3", "4", "5", "6", "7", "8", "9"}
IsNumber(s) == Len(s) > 0 /\ \A i \in 1..Len(s) : SubSeq(s, i, i) \in Digits
TokMatches(e, o) == e = o \/ (e = "<num>" /\ IsNumber(o))

\* origin rules of C03 for one token
OriginOk(tag, o) ==
  CASE tag.c = "copy" -> o.f = tag.f /\ o.off = tag.off /\ o.ct
    [] tag.c = "exp"  -> o.f = tag.f /\ o.off >= tag.off
    [] tag.c = "syn"  -> o.f = ""
    [] tag.c = "any"  -> TRUE
    [] OTHER -> FALSE

\* C03 for blank bytes.  Which blanks survive around dropped directives is a layout detail the
\* property does not fix, so the specification does not predict WHICH survive, only where a
\* surviving one must point: a blank run either is a copy (the source bytes at the reported
\* offset are the same characters, and the offset lies between the origins of the neighbouring
\* copied tokens of that file), or it belongs to a macro expansion (a neighbouring token is an
\* expansion token of the same definition file); it may lack an origin only next to synthesised text.
FText(env, f) ==
  LET S == {i \in 1..Len(env.ftext) : env.ftext[i].n = f} IN
  IF S = {} THEN "" ELSE env.ftext[CHOOSE i \in S : TRUE].text
BlankOk(env, exp, toks, b) ==
  LET pt == IF b.prev > 0 /\ b.prev <= Len(exp) THEN exp[b.prev].o ELSE NoTag
      nt == IF b.next > 0 /\ b.next <= Len(exp) THEN exp[b.next].o ELSE NoTag
      len == Len(b.t)
      ft == FText(env, b.f)
      copied == /\ b.off + len <= Len(ft)
                /\ SubSeq(ft, b.off + 1, b.off + len) = b.t
                \* (a blank run duplicated by known finding D2 repeats an earlier source range, so the
                \*  "between its neighbours" part is only demanded by the reference specification)
                /\ ("DupTriviaAfterStrEsc" \in Dev \/
                     /\ (pt.c = "copy" /\ pt.f = b.f => pt.off + Len(toks[b.prev].t) <= b.off)
                     /\ (nt.c = "copy" /\ nt.f = b.f => b.off + len <= nt.off))
      nearExp == (pt.c = "exp" /\ pt.f = b.f) \/ (nt.c = "exp" /\ nt.f = b.f)
      nearSyn == pt.c \in {"syn", "any"} \/ nt.c \in {"syn", "any"}
      \* an expansion that consists of blanks only has no neighbouring expansion token: it must then
      \* point into the body of a `define written in that file
      its == FileItems(env, b.f)
      inBody == \E i \in 1..Len(its) :
                  /\ its[i].k = "def" /\ its[i].b # <<>>
                  /\ its[i].off + its[i].b[1].boff <= b.off
                  /\ (i < Len(its) => b.off <= its[i + 1].off)
      nearAny == pt.c = "any" \/ nt.c = "any"
  IN IF b.f = "" THEN nearSyn ELSE (copied \/ nearExp \/ inBody \/ nearAny)

ErrOf(st) == IF st.status = "err" THEN st.err ELSE <<>>

ObsDefSet(obs) == {obs.defs[i] : i \in 1..Len(obs.defs)}

\* reasons why `obs` is not what the specification computes for `env`
JudgeRun(env, obs, checkOrigins) ==
  LET st == Run(env) IN
  IF obs.outcome \notin {"ok", "err"} THEN <<"outcome " \o obs.outcome \o " is not Ok or a structured Error: " \o obs.msg>>
  ELSE IF st.status = "err" THEN
        (IF obs.outcome # "err" THEN <<"expected error, library returned Ok", ToString(st.err)>>
         ELSE IF obs.err # st.err THEN <<"error differs", ToString(st.err), ToString(obs.err)>> ELSE <<>>)
  ELSE IF obs.outcome # "ok" THEN <<"expected Ok, library returned error", ToString(obs.err)>>
  ELSE LET exp == st.out
           n == Len(exp)
           firstBad == {i \in 1..n : i <= Len(obs.toks) /\ (~TokMatches(exp[i].t, obs.toks[i].t) \/ exp[i].c # obs.toks[i].c)}
           orgBad == {i \in 1..n : i <= Len(obs.toks) /\ ~OriginOk(exp[i].o, obs.toks[i])}
       IN (IF Len(obs.toks) # n THEN <<"token count differs", ToString(n), ToString(Len(obs.toks))>> ELSE <<>>)
          \o (IF firstBad # {} THEN LET i == CHOOSE i \in firstBad : \A j \in firstBad : i <= j
                                  IN <<"token differs at", ToString(i), exp[i].t, obs.toks[i].t>> ELSE <<>>)
          \o (IF checkOrigins /\ firstBad = {} /\ orgBad # {} THEN
                 LET i == CHOOSE i \in orgBad : \A j \in orgBad : i <= j
                 IN <<"origin differs at", ToString(i), exp[i].t, ToString(exp[i].o), ToString(obs.toks[i])>> ELSE <<>>)
          \o (IF checkOrigins /\ firstBad = {} /\ Len(obs.toks) = n THEN
                 LET bb == {i \in 1..Len(obs.blanks) : ~BlankOk(env, exp, obs.toks, obs.blanks[i])} IN
                 IF bb = {} THEN <<>>
                 ELSE LET i == CHOOSE i \in bb : \A j \in bb : i <= j
                      IN <<"blank run has a wrong origin", ToString(obs.blanks[i])>>
              ELSE <<>>)
          \o (IF DefTable(st) # ObsDefSet(obs) THEN <<"define table differs", ToString(DefTable(st) \ ObsDefSet(obs)), ToString(ObsDefSet(obs) \ DefTable(st))>> ELSE <<>>)

FiredDev(env) == Run(env).dev

NonCmtObs(obs) == LET o == SelectSeq(obs.toks, LAMBDA x : ~x.c) IN [i \in 1..Len(o) |-> o[i].t]

ObsToks(obs) == [i \in 1..Len(obs.toks) |-> <<obs.toks[i].t, obs.toks[i].c>>]

\* C18 as a relation between the two observed runs: same non-comment tokens, same table, same
\* error; no comment in the stripped output
JudgeStripRel(o1, o2) ==
  IF o1.outcome # o2.outcome THEN <<"strip_comments changes the outcome", o1.outcome, o2.outcome>>
  ELSE IF o1.outcome = "err" THEN (IF o1.err # o2.err THEN <<"strip_comments changes the error">> ELSE <<>>)
  ELSE IF o1.outcome # "ok" THEN <<"outcome is not Ok or a structured Error", o1.outcome>>
  ELSE (IF NonCmtObs(o1) # NonCmtObs(o2) THEN <<"strip_comments changes the non-comment tokens">> ELSE <<>>)
       \o (IF ObsDefSet(o1) # ObsDefSet(o2) THEN <<"strip_comments changes the define table">> ELSE <<>>)
       \o (IF \E i \in 1..Len(o2.toks) : o2.toks[i].c THEN <<"comment left in the stripped output">> ELSE <<>>)

\* C11: obs = file A, obs2 = file B run with the table returned for A, obs3 = A \o B
JudgeConcat(oa, ob, oab) ==
  IF oa.outcome \notin {"ok", "err"} \/ ob.outcome \notin {"ok", "err"} \/ oab.outcome \notin {"ok", "err"}
    THEN <<"outcome is not Ok or a structured Error">>
  ELSE IF oa.outcome = "err" THEN (IF oab.outcome # "err" \/ oab.err # oa.err THEN <<"first file fails but the concatenation does not fail the same way">> ELSE <<>>)
  ELSE IF ob.outcome = "err" THEN (IF oab.outcome # "err" \/ oab.err # ob.err THEN <<"second file fails with the first one's table but the concatenation does not fail the same way", ToString(ob.err), ToString(oab.err)>> ELSE <<>>)
  ELSE IF oab.outcome # "ok" THEN <<"concatenation fails although both files succeed one after the other", ToString(oab.err)>>
  ELSE (IF ObsToks(oab) # ObsToks(oa) \o ObsToks(ob) THEN <<"text of the concatenation differs from first \\o second">> ELSE <<>>)
       \o (IF ObsDefSet(oab) # ObsDefSet(ob) THEN <<"final define table differs", ToString(ObsDefSet(oab) \ ObsDefSet(ob)), ToString(ObsDefSet(ob) \ ObsDefSet(oab))>> ELSE <<>>)

\* C06 (second half): obs2 = the run over obs's output text with the same initial defines
JudgeFix(o1, o2) ==
  IF o1.outcome # "ok" THEN <<>>
  ELSE IF o2.outcome # "ok" THEN <<"re-preprocessing the output fails", o2.outcome, ToString(o2.err)>>
  ELSE IF ObsToks(o1) # ObsToks(o2) THEN <<"re-preprocessing the output changes it (token level)">> ELSE <<>>

\* C09, breadth: the real run used the program shape of r.env with every sibling group repeated r.k times instead of
\* twice (k + k*k files opened at nesting level 2).  Nesting depth does not depend on the multiplicity of siblings
\* (MC_PreprocInc: DepthBounded over graphs with repeated edges), so the outcome must be the specification's outcome
\* for the small shape; the number of tokens scales with the multiplicities (r.leaf tokens per leaf file, r.tail behind).
JudgeShape(r) ==
  LET st == Run(r.env) IN
  IF r.obs.outcome \notin {"ok", "err"} THEN <<"outcome " \o r.obs.outcome \o " is not Ok or a structured Error">>
  ELSE IF st.status = "err" THEN
        (IF r.obs.outcome # "err" THEN <<"expected error, library returned Ok", ToString(st.err)>>
         ELSE IF r.obs.err # st.err THEN <<"error differs", ToString(st.err), ToString(r.obs.err)>> ELSE <<>>)
  ELSE IF r.obs.outcome # "ok" THEN <<"expected Ok, library returned error", ToString(r.obs.err)>>
  ELSE IF Len(st.out) # 4 * r.leaf + r.tail THEN <<"shape record is not the 2 x 2 shape it claims to be", ToString(Len(st.out))>>
  ELSE IF r.ntoks # r.k * r.k * r.leaf + r.tail THEN <<"token count differs", ToString(r.k * r.k * r.leaf + r.tail), ToString(r.ntoks)>>
  ELSE <<>>

Judge(r) ==
  CASE r.kind = "run"    -> JudgeRun(r.env, r.obs, r.org)
    [] r.kind = "shape"  -> JudgeShape(r)
    [] r.kind = "strip"  -> IF Dev = {} THEN JudgeStripRel(r.obs, r.obs2)
                            ELSE JudgeRun(r.env, r.obs, FALSE) \o JudgeRun([r.env EXCEPT !.strip = TRUE], r.obs2, FALSE)
    [] r.kind = "concat" -> JudgeConcat(r.obs, r.obs2, r.obs3)
    [] r.kind = "fix"    -> JudgeFix(r.obs, r.obs2)
    [] OTHER -> <<"unknown record kind">>

DevOf(r) == IF r.kind = "run" THEN FiredDev(r.env)
            ELSE IF r.kind = "strip" THEN FiredDev(r.env) \cup FiredDev([r.env EXCEPT !.strip = TRUE])
            ELSE {}

VARIABLES l, nbad
Init == l = 1 /\ nbad = 0
Next ==
  /\ l <= Len(Rec)
  /\ LET r == Rec[l]
         v == Judge(r)
     IN /\ IF v = <<>> THEN nbad' = nbad
           ELSE /\ PrintT("BAD|" \o r.id \o "|" \o ToString(v))
                /\ nbad' = nbad + 1
        /\ (v = <<>> /\ Dev # {} /\ DevOf(r) # {})
              => PrintT("BAD|DEV:" \o r.id \o "|" \o ToString(DevOf(r)))
        /\ l' = l + 1
        /\ (l = Len(Rec) => PrintT("SUMMARY|" \o ToString(l) \o "|" \o ToString(nbad')))
Spec == Init /\ [][Next]_<<l, nbad>>
=============================================================================
