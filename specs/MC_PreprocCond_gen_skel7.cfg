SPECIFICATION Spec
CONSTANTS
  Limit = 3
  Dev = {}
  MaxLen = 7
  MaxDepth = 3
  Wide = "skel"
  Export = TRUE
  Tables <- TablesOne
INVARIANT ExportInv
CHECK_DEADLOCK FALSE
