SPECIFICATION Spec
CONSTANTS
  Dev = {"DupTriviaAfterStrEsc"}
  MaxLen = 5
  Alphabet <- Alpha9
  Export = FALSE
INVARIANT RefIdentity
INVARIANT FiredGrows
INVARIANT FaultKinds
CHECK_DEADLOCK FALSE
