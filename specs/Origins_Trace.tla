---------------------------- MODULE Origins_Trace ----------------------------
(***************************************************************************)
(* Trace validation of the origin map.  A record carries the hook events   *)
(* of one successful preprocessor run, in program order:                   *)
(*   enter            a new PreprocessedText is created (preprocess_str)   *)
(*   push  len has src ob    PreprocessedText::push on the current text    *)
(*   leave            the current text is returned to the caller           *)
(*   merge            the text returned last is merged (`include)          *)
(* and what PreprocessedText::origin(p) reported for every byte of the     *)
(* final text (run-length encoded).  The events are replayed through the   *)
(* Origins machine; for every byte the reported origin must equal both the *)
(* lookup in the transcribed B-tree (binding) and the segment the byte was *)
(* appended with (the property).                                           *)
(* Record kind "leaf": SyntaxTree::get_origin(token) = origin(first byte). *)
(***************************************************************************)
EXTENDS Origins, Json, IOUtils

Rec == ndJsonDeserialize(IOEnv.TRACE)

\* state of the replay: stack of texts under construction + the text returned last
RECURSIVE Replay(_, _, _, _)
Replay(evs, i, stack, ret) ==
  IF i > Len(evs) THEN [stack |-> stack, ret |-> ret]
  ELSE LET e == evs[i] IN
    CASE e.k = "enter" -> Replay(evs, i + 1, Append(stack, EmptyText), ret)
      [] e.k = "push"  -> Replay(evs, i + 1, [stack EXCEPT ![Len(stack)] = Push(@, e.len, e.has, e.src, e.ob, TRUE)], ret)
      [] e.k = "leave" -> Replay(evs, i + 1, SubSeq(stack, 1, Len(stack) - 1), stack[Len(stack)])
      [] e.k = "merge" -> Replay(evs, i + 1, [stack EXCEPT ![Len(stack)] = Merge(@, ret)], ret)
      [] OTHER -> Replay(evs, i + 1, stack, ret)

Reported(runs, p) ==
  LET S == {i \in 1..Len(runs) : runs[i][1] <= p /\ p < runs[i][1] + runs[i][2]} IN
  IF S = {} THEN <<>>
  ELSE LET r == runs[CHOOSE i \in S : TRUE] IN IF r[3] = "" THEN <<>> ELSE <<r[3], r[4] + (p - r[1])>>

JudgeMap(r) ==
  LET fin == Replay(r.events, 1, <<>>, EmptyText)
      t == fin.ret
      badImpl == {p \in 0..(r.total - 1) : ImplLookup(t, p) # Reported(r.runs, p)}
      badSpec == {p \in 0..(r.total - 1) : SpecLookup(t, p) # Reported(r.runs, p)}
  IN (IF fin.stack # <<>> THEN <<"unbalanced enter/leave events">> ELSE <<>>)
     \o (IF t.total # r.total THEN <<"replayed text length differs from the returned text", ToString(t.total), ToString(r.total)>> ELSE <<>>)
     \o (IF badImpl # {} THEN LET p == CHOOSE p \in badImpl : \A q \in badImpl : p <= q
                              IN <<"origin(p) differs from the transcribed map at", ToString(p), ToString(ImplLookup(t, p)), ToString(Reported(r.runs, p))>> ELSE <<>>)
     \o (IF badSpec # {} THEN LET p == CHOOSE p \in badSpec : \A q \in badSpec : p <= q
                              IN <<"origin(p) is not the segment the byte was pushed with at", ToString(p), ToString(SpecLookup(t, p)), ToString(Reported(r.runs, p))>> ELSE <<>>)

JudgeLeaf(r) ==
  LET bad == {i \in 1..Len(r.leaves) :
                (IF r.leaves[i][2] = "" THEN <<>> ELSE <<r.leaves[i][2], r.leaves[i][3]>>) # Reported(r.runs, r.leaves[i][1])}
  IN IF bad = {} THEN <<>> ELSE <<"get_origin(token) differs from origin(first byte)", ToString(r.leaves[CHOOSE i \in bad : TRUE])>>

Judge(r) == CASE r.kind = "orgmap" -> JudgeMap(r) [] r.kind = "leaf" -> JudgeLeaf(r) [] OTHER -> <<"unknown record kind">>

VARIABLES l, nbad
Init == l = 1 /\ nbad = 0
Next ==
  /\ l <= Len(Rec)
  /\ LET r == Rec[l]
         v == Judge(r)
     IN /\ IF v = <<>> THEN nbad' = nbad
           ELSE /\ PrintT("BAD|" \o r.id \o "|" \o ToString(v))
                /\ nbad' = nbad + 1
        /\ l' = l + 1
        /\ (l = Len(Rec) => PrintT("SUMMARY|" \o ToString(l) \o "|" \o ToString(nbad')))
Spec == Init /\ [][Next]_<<l, nbad>>
=============================================================================
