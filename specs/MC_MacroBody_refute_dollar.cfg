SPECIFICATION Spec
CONSTANTS
  Dev = {"DollarNotIdent"}
  MaxLen = 5
  Alphabet <- Alpha9
  Export = FALSE
  Formals <- F2
INVARIANTS MachineEqualsRef
CHECK_DEADLOCK FALSE
