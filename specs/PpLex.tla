------------------------------- MODULE PpLex -------------------------------
(***************************************************************************)
(* The preprocessor's lexical partition of a source text (grammar rule     *)
(* source_description in sv-parser-parser/src/general/compiler_directives  *)
(* .rs) as a scanner over characters, for DIRECTIVE-FREE text (C06, C14).  *)
(*                                                                         *)
(* A text is a sequence of one-character strings.  Scan partitions it into *)
(* segments: comment | string literal (+ trailing trivia) | escaped        *)
(* identifier (+ trailing trivia) | plain run, or stops at a fault:        *)
(*   "string"    unterminated string literal                               *)
(*   "comment"   unterminated block comment                                *)
(*   "backslash" a backslash followed by a blank or by the end of the text *)
(* or reports that the text is not directive-free (a backtick outside      *)
(* strings, comments and escaped identifiers).                             *)
(* Property-level results for directive-free text: accepted iff no fault;  *)
(* output = input; origin of byte i = (path, i).                           *)
(* Deviation DupTriviaAfterStrEsc (known finding D2): the blank runs and   *)
(* comments that follow a string literal / escaped identifier are emitted  *)
(* once more after it.                                                     *)
(***************************************************************************)
EXTENDS Naturals, Sequences, FiniteSets, TLC

CONSTANT Dev

Blank == {" ", "\t"}
Newl == {"\n", "\r"}
Space == Blank \cup Newl

At(t, i) == IF i <= Len(t) THEN t[i] ELSE ""

\* end (exclusive index) of the comment starting at i, 0 if none starts there, -1 encoded as Len+2 if unterminated
RECURSIVE LineEnd(_, _), BlockEnd(_, _)
LineEnd(t, j) == IF j > Len(t) THEN j ELSE IF t[j] = "\n" THEN j + 1 ELSE LineEnd(t, j + 1)
BlockEnd(t, j) == IF j + 1 > Len(t) THEN 0 ELSE IF t[j] = "*" /\ t[j + 1] = "/" THEN j + 2 ELSE BlockEnd(t, j + 1)
StartsLine(t, i) == At(t, i) = "/" /\ At(t, i + 1) = "/"
StartsBlock(t, i) == At(t, i) = "/" /\ At(t, i + 1) = "*"

RECURSIVE SkipIn(_, _, _)
SkipIn(t, j, S) == IF j <= Len(t) /\ t[j] \in S THEN SkipIn(t, j + 1, S) ELSE j

\* trailing trivia of a string literal / escaped identifier starting at i:
\* [e |-> end, dup |-> sequence of <<from, to>> ranges that the deviation emits again, dir |-> a directive follows]
RECURSIVE Trivia(_, _, _)
Trivia(t, i, dup) ==
  IF i > Len(t) THEN [e |-> i, dup |-> dup, dir |-> FALSE]
  ELSE IF t[i] \in Blank THEN LET j == SkipIn(t, i, Blank) IN Trivia(t, j, Append(dup, <<i, j - 1>>))
  ELSE IF t[i] \in Newl THEN Trivia(t, SkipIn(t, i, Space), dup)
  ELSE IF StartsLine(t, i) THEN LET j == LineEnd(t, i + 2) IN Trivia(t, j, Append(dup, <<i, j - 1>>))
  ELSE IF StartsBlock(t, i) THEN
         LET j == BlockEnd(t, i + 2) IN
         IF j = 0 THEN [e |-> i, dup |-> dup, dir |-> FALSE] ELSE Trivia(t, j, Append(dup, <<i, j - 1>>))
  ELSE IF t[i] = "`" THEN [e |-> i, dup |-> dup, dir |-> TRUE]
  ELSE [e |-> i, dup |-> dup, dir |-> FALSE]

\* end of the string literal opened at i (index after the closing quote), 0 if unterminated
RECURSIVE StrEnd(_, _)
StrEnd(t, j) ==
  IF j > Len(t) THEN 0
  ELSE IF t[j] = "\\" THEN (IF j + 1 > Len(t) THEN 0 ELSE StrEnd(t, j + 2))
  ELSE IF t[j] = "\"" THEN j + 1
  ELSE StrEnd(t, j + 1)

\* escaped identifier: backslash followed by everything up to the next white space
RECURSIVE SkipNon(_, _)
SkipNon(t, j) == IF j <= Len(t) /\ t[j] \notin Space THEN SkipNon(t, j + 1) ELSE j

RECURSIVE RunEnd(_, _)
RunEnd(t, j) ==
  IF j > Len(t) THEN j
  ELSE IF t[j] \in {"`", "\"", "\\"} THEN j
  ELSE IF t[j] = "/" /\ At(t, j + 1) \in {"/", "*"} THEN j
  ELSE RunEnd(t, j + 1)

RECURSIVE DupText(_, _)
DupText(t, dup) == IF dup = <<>> THEN <<>> ELSE SubSeq(t, Head(dup)[1], Head(dup)[2]) \o DupText(t, Tail(dup))

\* result: [ok, fault, fpos, dfree, out, fired]   (fpos: 0-based offset of the fault; out: expected output)
RECURSIVE Scan(_, _, _, _)
Res(ok, fault, fpos, dfree, out, fired) == [ok |-> ok, fault |-> fault, fpos |-> fpos, dfree |-> dfree, out |-> out, fired |-> fired]
Scan(t, i, out, fired) ==
  IF i > Len(t) THEN Res(TRUE, "", 0, TRUE, out, fired)
  ELSE LET c == t[i] IN
    IF StartsLine(t, i) THEN LET j == LineEnd(t, i + 2) IN Scan(t, j, out \o SubSeq(t, i, j - 1), fired)
    ELSE IF StartsBlock(t, i) THEN
         LET j == BlockEnd(t, i + 2) IN
         IF j = 0 THEN Res(FALSE, "comment", Len(t), TRUE, out, fired) ELSE Scan(t, j, out \o SubSeq(t, i, j - 1), fired)
    ELSE IF c = "\"" \/ c = "\\" THEN
         LET j == IF c = "\"" THEN StrEnd(t, i + 1) ELSE (IF SkipNon(t, i + 1) = i + 1 THEN 0 ELSE SkipNon(t, i + 1)) IN
         IF j = 0 THEN (IF c = "\"" THEN Res(FALSE, "string", Len(t), TRUE, out, fired) ELSE Res(FALSE, "backslash", i, TRUE, out, fired))
         ELSE LET tr == Trivia(t, j, <<>>)
                  d == IF "DupTriviaAfterStrEsc" \in Dev THEN DupText(t, tr.dup) ELSE <<>>
              IN IF tr.dir THEN Res(TRUE, "", 0, FALSE, out, fired)
                 ELSE Scan(t, tr.e, out \o SubSeq(t, i, tr.e - 1) \o d, fired \/ d # <<>>)
    ELSE IF c = "`" THEN Res(TRUE, "", 0, FALSE, out, fired)
    ELSE LET j == RunEnd(t, i) IN Scan(t, j, out \o SubSeq(t, i, j - 1), fired)

Lex(t) == Scan(t, 1, <<>>, FALSE)
=============================================================================
