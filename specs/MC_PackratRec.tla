---------------------------- MODULE MC_PackratRec ----------------------------
(* TransparentR / MemoFree for every grammar of the family x every input up to MaxLen x capacities Caps.      *)
(* Grammars (R = recursive + memoised, M = memoised, U = plain):                                               *)
(*   1  E -> E '+' T | T  (direct left recursion; the guard makes the first alternative fail at the same        *)
(*      position, the usual use in sv-parser-parser: expression_binary, constant_expression_binary ...)         *)
(*   2  S -> R 'z' | X ;  R -> X 'c' | 'a' ;  X -> R 'b'   (a memoised rule that meets the guard: D15 shape)   *)
(*   3  S -> P ';' | Q ;  P -> Q '?' | 'a' (recursive) ; Q -> W 'b' ; W -> P  (the failure is stored two       *)
(*      memoised rules away from the guard)                                                                   *)
(* FlagsInKey = FALSE (the code): TransparentR is REFUTED (grammars 2, 3); TRUE: it holds, and the table        *)
(* does not change what the guarded grammar accepts (MemoFree).                                                *)
EXTENDS PackratRec
CONSTANTS MaxLen, Caps
VARIABLES gi, inp
R(e) == [e |-> e, memo |-> TRUE, rec |-> TRUE]
M(e) == [e |-> e, memo |-> TRUE, rec |-> FALSE]
U(e) == [e |-> e, memo |-> FALSE, rec |-> FALSE]
Grammars == <<
  [S |-> U(Call("E")), E |-> R(Alt2(Seq2(Call("E"), Seq2(Tok("+"), Call("T"))), Call("T"))), T |-> M(Tok("a"))],
  [S |-> U(Alt2(Seq2(Call("R"), Tok("z")), Call("X"))), R |-> R(Alt2(Seq2(Call("X"), Tok("c")), Tok("a"))), X |-> M(Seq2(Call("R"), Tok("b")))],
  [S |-> U(Alt2(Seq2(Call("P"), Tok(";")), Call("Q"))), P |-> R(Alt2(Seq2(Call("Q"), Tok("?")), Tok("a"))),
   Q |-> M(Seq2(Call("W"), Tok("b"))), W |-> M(Call("P"))] >>
Alphabet == {"a", "b", "c", "z", "+", ";", "?"}
Init == gi \in 1..Len(Grammars) /\ inp = <<>>
Next == Len(inp) < MaxLen /\ \E ch \in Alphabet : inp' = Append(inp, ch) /\ UNCHANGED gi
Spec == Init /\ [][Next]_<<gi, inp>>
TransparentInv == TransparentR(Grammars[gi], inp, Caps)
MemoFreeInv == MemoFree(Grammars[gi], inp, Caps)
\* the guard terminates direct left recursion and the grammar still accepts a first operand
LeftRecursionInv == gi = 1 /\ inp # <<>> /\ inp[1] = "a" => ParseR(Grammars[1], inp, 0)[1]
CapsAll == {1, 2, 3}
=============================================================================
