SPECIFICATION Spec
CONSTANTS
  Dev = {}
CHECK_DEADLOCK FALSE
