--------------------------- MODULE MC_PreprocMacro ---------------------------
(***************************************************************************)
(* Model checking / generation wrapper for macro expansion (C05).          *)
(*                                                                         *)
(* Universe: a macro M with one of the formal lists FL, a body built from  *)
(* the alphabet BodyAlpha (length <= MaxBody), used twice with one of the  *)
(* argument lists AL; auxiliary macros N (object-like) and N1(p) are used  *)
(* inside bodies and arguments, and N may be redefined between the two     *)
(* usages ("define table current at the point of use").                    *)
(* The frame-stack machine of Preproc is compared with a big-step          *)
(* recursive reference ExpandRef (IEEE 22.5.1).                            *)
(***************************************************************************)
EXTENDS Preproc, Json

CONSTANTS MaxBody, Export, Redefs

VARIABLES fl, al, body, redef, phase, st
vars == <<fl, al, body, redef, phase, st>>

T(k, n) == [k |-> k, n |-> n, a |-> <<>>, g |-> FALSE, s |-> ""]
UseT(n, args) == [k |-> "use", n |-> n, a |-> args, g |-> FALSE, s |-> ""]
DefT(n, v) == [k |-> "def", n |-> n, a |-> <<T("lit", v)>>, g |-> FALSE, s |-> v]
Grp(toks) == [k |-> "grp", n |-> "", a |-> toks, g |-> FALSE, s |-> ""]
CondT(kw, n, th, el) == [k |-> "cond", n |-> n, a |-> <<Grp(th), Grp(el)>>, g |-> FALSE, s |-> kw]
Dflt(toks) == <<[src |-> "", toks |-> toks]>>

FL == { <<>>,                                                    \* no formal list
        <<[n |-> "x", d |-> <<>>]>>,
        <<[n |-> "x", d |-> Dflt(<<T("lit", "dx")>>)]>>,
        <<[n |-> "x", d |-> <<>>], [n |-> "y", d |-> <<>>]>>,
        <<[n |-> "x", d |-> <<>>], [n |-> "y", d |-> Dflt(<<T("lit", "dy")>>)]>> }

\* argument lists: <<>> = none written; <<list>> with <<>> = empty actual
AL == { <<>>,
        << << <<>> >> >>,                                            \* ()
        << << <<T("lit", "a1")>> >> >>,                              \* (a1)
        << << <<T("lit", "a1")>>, <<T("lit", "a2")>> >> >>,          \* (a1,a2)
        << << <<>>, <<T("lit", "a2")>> >> >>,                        \* (,a2)
        << << <<T("lit", "a1")>>, <<>> >> >>,                        \* (a1,)
        << << <<T("lit", "a1"), T("lit", "+"), UseT("N", <<>>)>> >> >>,   \* (a1 + `N)
        << << <<T("lit", "("), T("lit", "a1"), T("lit", ","), T("lit", "a2"), T("lit", ")")>>, <<T("str", "\"s,t\"")>> >> >> }  \* ((a1,a2),"s,t")

BodyAlpha == { T("lit", "k"), T("id", "x"), T("id", "y"), T("id", "z"), T("paste", ""),
               \* an ordinary string literal is left untouched: no substitution of x, no comment, no usage, no paste inside
               T("str", "\"x //y /*z*/ `N `` w\""), UseT("N", <<>>), UseT("N1", << << <<T("id", "x")>> >> >>),
               [k |-> "bqs", n |-> "", a |-> <<T("lit", "s "), T("id", "x"), T("lit", " e")>>, g |-> FALSE, s |-> ""],
               T("cont", ""), T("undef", "N"), DefT("N", "n3"),
               \* conditionals inside the body: on a macro that the body itself may undefine / redefine, and on a formal's name
               CondT("ifdef", "N", <<T("lit", "c1"), T("id", "x")>>, <<T("lit", "c2")>>),
               CondT("ifndef", "N", <<UseT("N1", << << <<T("id", "y")>> >> >>)>>, <<UseT("N", <<>>)>>) }

\* `` only between two plain tokens (what the generators are restricted to, Appendix A.4)
Pastable(t) == t.k \in {"lit", "id"}
\* (written with IF: TLC splits a disjunction inside an action into alternatives and would evaluate Last(<<>>))
\* A string literal is never directly followed by a directive: that runs into known finding D2
\* (trivia after a string literal is emitted twice, pinned by golden files), which is decided
\* on its own by the lexical specification PpLex (C06), not here.
CanAppend(b, t) ==
  IF b = <<>> THEN t.k # "paste"
  ELSE IF Last(b).k = "def" THEN t.k = "cont"            \* a `define inside a body ends its line
  ELSE IF Last(b).k \in {"str", "bqs"} /\ t.k \in {"use", "cond"} THEN FALSE
  \* (a conditional anywhere behind a string literal of the same body: only a continuation, another directive or an
  \*  empty actual may stand between them, which is D2 territory again)
  ELSE IF t.k = "cond" /\ \E i \in 1..Len(b) : b[i].k \in {"str", "bqs"} THEN FALSE
  ELSE IF t.k = "paste" THEN Pastable(Last(b))
  ELSE IF Last(b).k = "paste" THEN Pastable(t) ELSE TRUE
Complete(b) == IF b = <<>> THEN TRUE ELSE Last(b).k # "paste"
\* Appendix A.4: a formal that stands inside `"...`" or next to `` is bound to single plain tokens
SimpleActuals(a) == IF a = <<>> THEN TRUE
                    ELSE \A i \in 1..Len(a[1]) : a[1][i] = <<>> \/ (Len(a[1][i]) = 1 /\ a[1][i][1].k = "lit")
NeedsSimple(b) == \E i \in 1..Len(b) : b[i].k \in {"bqs", "paste"}
\* a body that ends in an argument-less usage, in a macro without formals used WITH an argument list: the restored
\* list would be read as the arguments of that trailing usage (the abstract items and the concrete text differ)
TrailingUseGetsList(f, a, b) == f = <<>> /\ a # <<>> /\ b # <<>> /\ ((Last(b).k = "use" /\ Last(b).a = <<>>) \/ Last(b).k = "def")   \* (or of a trailing `define's body)
\* a conditional directive that ends up directly behind a string literal (a formal bound to a string actual) is known
\* finding D2 territory again (directives after a string are emitted twice), decided by PpLex / C06
HasCond(b) == \E i \in 1..Len(b) : b[i].k = "cond"
HasStrActual(a) == a # <<>> /\ \E i \in 1..Len(a[1]) : \E j \in 1..Len(a[1][i]) : a[1][i][j].k = "str"
\* formal (possibly bound to a string) - argument-less usage - formal (possibly bound to a parenthesised group): the raw text
\* that D2 duplicates behind the string then includes the group, which the token-level deviation does not model
UseBetweenFormals(b) == \E i \in 2..(Len(b) - 1) : b[i].k = "use" /\ b[i].a = <<>> /\ b[i - 1].k = "id" /\ b[i + 1].k = "id"
Allowed(a, b) == (NeedsSimple(b) => SimpleActuals(a)) /\ ~TrailingUseGetsList(fl, a, b) /\ ~(HasCond(b) /\ HasStrActual(a))
                 /\ ~(UseBetweenFormals(b) /\ HasStrActual(a))

MkItem(k, n) == [k |-> k, n |-> n, a |-> <<>>, b |-> <<>>, f |-> 0, ts |-> <<>>, to |-> <<>>, off |-> 0, ln |-> 0, ln2 |-> 0, g |-> FALSE]
DefItem(n, formals, hasf, toks) == [MkItem("def", n) EXCEPT !.a = formals, !.f = hasf, !.b = <<[src |-> "", toks |-> toks, boff |-> 0]>>]
UseItem(n, args) == [MkItem("use", n) EXCEPT !.a = args]

Program(f, a, b, r) ==
  <<DefItem("N", <<>>, 0, <<T("lit", "n1")>>),
    DefItem("N1", <<[n |-> "p", d |-> <<>>]>>, 1, <<T("lit", "<"), T("id", "p"), T("lit", ">")>>),
    IF b = <<>> THEN [MkItem("def", "M") EXCEPT !.a = f, !.f = IF f = <<>> THEN 0 ELSE 1]
    ELSE DefItem("M", f, IF f = <<>> THEN 0 ELSE 1, b),
    UseItem("M", a)>>
  \o (IF r THEN <<DefItem("N", <<>>, 0, <<T("lit", "n2")>>)>> ELSE <<>>)
  \o <<UseItem("M", a), [MkItem("tok", "end") EXCEPT !.ts = <<"end">>, !.to = <<0>>]>>

Lines(p) == [i \in 1..Len(p) |-> [p[i] EXCEPT !.ln = i, !.ln2 = i]]
EnvOf(p) == [files |-> <<[n |-> "top.sv", items |-> Lines(p)]>>, fs |-> <<[p |-> "top.sv", kind |-> "file"]>>,
             incdirs |-> <<>>, ign |-> FALSE, strip |-> FALSE, top |-> "top.sv", predef |-> <<>>]

Init == /\ fl \in FL /\ al \in AL /\ redef \in Redefs /\ body = <<>> /\ phase = "gen" /\ st = [status |-> "none"]
Gen ==
  /\ phase = "gen"
  /\ \/ /\ Len(body) < MaxBody
        /\ \E t \in BodyAlpha : CanAppend(body, t) /\ body' = Append(body, t)
        /\ UNCHANGED <<fl, al, redef, phase, st>>
     \/ /\ Complete(body)
        /\ Allowed(al, body)
        /\ phase' = "run"
        /\ st' = InitState(EnvOf(Program(fl, al, body, redef)))
        /\ UNCHANGED <<fl, al, body, redef>>
RunStep ==
  /\ phase = "run" /\ st.status = "run"
  /\ st' = Step(st, EnvOf(Program(fl, al, body, redef)))
  /\ UNCHANGED <<fl, al, body, redef, phase>>
Next == Gen \/ RunStep
Spec == Init /\ [][Next]_vars

-----------------------------------------------------------------------------
(* big-step reference, IEEE 1800-2017 22.5.1 *)

\* the define table is threaded through the rescan: a directive inside a body takes effect at the point of use
RECURSIVE ExpandRef(_, _, _), Rescan(_, _, _)
RErr(e) == [ok |-> FALSE, err |-> e, toks |-> <<>>, defs |-> <<>>]
ROk(t, d) == [ok |-> TRUE, err |-> <<>>, toks |-> t, defs |-> d]
Rescan(ts, defs, depth) ==
  IF ts = <<>> THEN ROk(<<>>, defs) ELSE
  LET h == Head(ts) IN
  IF h.k = "use" THEN
       LET e == ExpandRef(h, defs, depth + 1) IN
       IF ~e.ok THEN e ELSE LET r == Rescan(Tail(ts), e.defs, depth) IN IF ~r.ok THEN r ELSE ROk(e.toks \o r.toks, r.defs)
  ELSE IF h.k \in {"lit", "id", "str"} THEN
       LET r == Rescan(Tail(ts), defs, depth) IN IF ~r.ok THEN r ELSE ROk(<<[t |-> h.n, g |-> h.g]>> \o r.toks, r.defs)
  ELSE IF h.k = "gap" THEN
       LET r == Rescan(Tail(ts), defs, depth) IN IF ~r.ok THEN r ELSE ROk(<<[t |-> "", g |-> FALSE]>> \o r.toks, r.defs)
  ELSE IF h.k = "def" THEN
       LET e == [n |-> h.n, none |-> FALSE, f |-> 0, a |-> <<>>, b |-> <<[src |-> h.s, toks |-> h.a, boff |-> 0]>>, file |-> "?", off |-> 0]
           r == Rescan(Tail(ts), DefSet(defs, e), depth) IN
       IF ~r.ok THEN r ELSE ROk(<<[t |-> "`", g |-> FALSE], [t |-> "define", g |-> FALSE], [t |-> h.n, g |-> FALSE]>> \o [i \in 1..Len(h.a) |-> [t |-> h.a[i].n, g |-> FALSE]] \o r.toks, r.defs)
  ELSE IF h.k = "cond" THEN
       \* 22.6: the branch is chosen by the define table at this point of the rescan
       LET live == IF (DefIdx(defs, h.n) # 0) = (h.s = "ifdef") THEN h.a[1].a ELSE h.a[2].a
       IN Rescan(live \o Tail(ts), defs, depth)
  ELSE IF h.k = "undef" THEN
       LET r == Rescan(Tail(ts), DefDel(defs, h.n), depth) IN
       IF ~r.ok THEN r ELSE ROk(<<[t |-> "`", g |-> FALSE], [t |-> "undef", g |-> FALSE], [t |-> h.n, g |-> FALSE]>> \o r.toks, r.defs)
  ELSE Rescan(Tail(ts), defs, depth)
ExpandRef(u, defs, depth) ==
  IF depth > Limit THEN RErr(<<"ExceedRecursiveLimit">>)
  ELSE LET i == DefIdx(defs, u.n) IN
  IF i = 0 THEN RErr(<<"DefineNotFound", u.n>>)
  ELSE LET d == defs[i] IN
       IF d.a # <<>> /\ u.a = <<>> THEN RErr(<<"DefineNoArgs", u.n>>)
       ELSE LET b == Bind(d.a, IF u.a = <<>> THEN <<>> ELSE u.a[1], 1, <<>>) IN
            IF ~b.ok THEN RErr(b.err)
            ELSE IF d.b = <<>> THEN (IF d.a = <<>> /\ u.a # <<>> THEN Rescan(ParenToks(u.a[1]), defs, depth) ELSE ROk(<<>>, defs))
            ELSE Rescan(Subst(Glue(d.b[1].toks), d.a, b.m) \o (IF d.a = <<>> /\ u.a # <<>> THEN ParenToks(u.a[1]) ELSE <<>>), defs, depth)

\* merge glued neighbours; an empty piece (empty actual) breaks gluing
RECURSIVE Merge(_)
Merge(ts) ==
  IF ts = <<>> THEN <<>>
  ELSE IF Head(ts).t = "" THEN Merge(Tail(ts))
  ELSE IF Head(ts).g /\ Len(ts) >= 2 /\ ts[2].t # "" THEN Merge(<<[t |-> ts[1].t \o ts[2].t, g |-> ts[2].g]>> \o SubSeq(ts, 3, Len(ts)))
  ELSE <<Head(ts).t>> \o Merge(Tail(ts))

DefsAt(second) ==
  LET mk(n, formals, hasf, toks) == [n |-> n, none |-> FALSE, f |-> hasf, a |-> formals, b |-> IF toks = <<>> THEN <<>> ELSE <<[src |-> "", toks |-> toks, boff |-> 0]>>, file |-> "top.sv", off |-> 0] IN
  <<mk("N", <<>>, 0, <<T("lit", IF second /\ redef THEN "n2" ELSE "n1")>>),
    mk("N1", <<[n |-> "p", d |-> <<>>]>>, 1, <<T("lit", "<"), T("id", "p"), T("lit", ">")>>),
    mk("M", fl, IF fl = <<>> THEN 0 ELSE 1, body)>>

\* the table in force at the second usage: what the first usage left, with N redefined in between if chosen
AfterFirst(r1) == IF redef THEN DefSet(r1.defs, DefsAt(TRUE)[1]) ELSE r1.defs
RefResult ==
  LET u == [k |-> "use", n |-> "M", a |-> al, g |-> FALSE]
      r1 == ExpandRef(u, DefsAt(FALSE), 1)
      r2 == ExpandRef(u, AfterFirst(r1), 1)
  IN IF ~r1.ok THEN r1 ELSE IF ~r2.ok THEN r2 ELSE ROk(Merge(r1.toks) \o Merge(r2.toks) \o <<"end">>, r2.defs)

MachineEqualsRef ==
  (phase = "run" /\ st.status # "run") =>
     LET r == RefResult IN
     IF r.ok THEN st.status = "ok" /\ OutToks(st) = r.toks /\ DefNames(st.defs) = DefNames(r.defs)
     ELSE st.status = "err" /\ st.err = r.err

\* text and tokens around the usage are preserved: the trailing token always survives a successful run
Surrounding == (phase = "run" /\ st.status = "ok") => Last(OutToks(st)) = "end"

StepBound == phase = "run" => st.steps <= 200

ExportInv == (Export /\ phase = "run" /\ st.status \notin {"run", "none"})
               => PrintT("REPLAY|" \o ToJson([fl |-> fl, al |-> al, body |-> body, redef |-> redef]))
RedefBoth == {FALSE, TRUE}
RedefNo == {FALSE}
=============================================================================
