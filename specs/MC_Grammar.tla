----------------------------- MODULE MC_Grammar -----------------------------
(* Exhaustive enumeration of the derivations of Grammar from a start symbol with a growth budget:   *)
(* sanity invariants of the generator (grammar well-formed, budget monotone, expectations           *)
(* duplicate-free in their identifiers) and GEN export of every complete sentence with the          *)
(* choice sequence that produced it.  AltUse records which alternatives the exported sentences used *)
(* (vacuity guard of C02's "covers").                                                               *)
EXTENDS Grammar, Json
CONSTANTS Start, Budget, Export, Collapse
VARIABLES d, choices
vars == <<d, choices>>
LexNTs == {"binop", "unop", "primary", "const_expr", "lvalue", "range", "ansi_port", "param_port", "net_decl", "var_decl", "typedef_decl",
           "case_item", "systf_call", "tf_ports", "named_conn", "port_decl_in", "port_decl_out", "param_stmt", "while_stmt", "always",
           "blocking", "nonblocking", "hinst", "if_item", "pkg_item", "class_item", "fstmt", "stmt_first",
           "x_gate", "x_item", "x_cg", "x_spec", "x_desc", "x_ifitem", "x_citem", "x_stmt", "x_prim"}
Init == d = Shift(DInit(Start, Budget)) /\ choices = <<>>
Next == /\ ~Complete(d)
        /\ \E k \in 1..Len(Prod[LeftNT(d)]) :
             /\ Allowed(d, Prod[LeftNT(d)][k])
             \* bounded-exhaustive structure, each-choice lexis: lexical / leaf classes are collapsed to their
             \* first alternative here; their members are swept one at a time by the driver (class sweep)
             /\ (Collapse /\ LeftNT(d) \in LexNTs) => k = 1
             /\ d' = Expand(d, k)
             /\ choices' = Append(choices, k)
Spec == Init /\ [][Next]_vars
WellFormed == TaggedIdFirst /\ HasTerminating /\ NTsDefined
BudgetOk == d.budget >= 0 /\ d.budget <= Budget
IdsDistinct == \A i, j \in 1..Len(d.expect) : (i # j /\ d.expect[i][2] # "") => d.expect[i] # d.expect[j]
ExportInv == (Export /\ Complete(d)) => PrintT("REPLAY|" \o ToJson([start |-> Start, choices |-> choices]))
GrammarDump == PrintT("GRAMMAR|" \o ToJson([prod |-> Prod, lits |-> LitTexts, pool |-> IdPool, tracked |-> Tracked]))
=============================================================================
