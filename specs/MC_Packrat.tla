----------------------------- MODULE MC_Packrat -----------------------------
(* Transparent checked for every grammar of a family x every input up to MaxLen over the alphabet x     *)
(* capacities Caps.  Families: "pure" (no hidden state: must hold), "impure_read" (a memoised rule reads *)
(* hidden state that changes between two visits of the same position), "impure_write" (a memoised rule  *)
(* has a side effect that a memo hit skips and an eviction repeats): both must be refuted.              *)
EXTENDS Packrat
CONSTANTS Family, MaxLen, Caps
VARIABLES gi, inp
M(e) == [e |-> e, memo |-> TRUE]
U(e) == [e |-> e, memo |-> FALSE]
Pure == <<
  [S |-> M(Alt2(Seq2(Call("A"), Seq2(Call("A"), Tok("b"))), Seq2(Call("A"), Tok("b")))), A |-> M(Alt2(Seq2(Tok("a"), Call("A")), Tok("a")))],
  [S |-> U(Alt2(Seq2(Call("E"), Tok("b")), Alt2(Seq2(Call("E"), Tok("a")), Call("E")))), E |-> M(Alt2(Seq2(Tok("a"), Call("E")), Tok("b"))), A |-> M(Eps)],
  [S |-> M(Alt2(Seq2(Call("X"), Seq2(Call("Y"), Tok("c"))), Seq2(Call("X"), Seq2(Call("Y"), Call("X"))))), X |-> M(Alt2(Tok("a"), Tok("b"))), Y |-> M(Alt2(Seq2(Call("X"), Call("Y")), Eps))],
  [S |-> M(Alt2(Seq2(Call("L"), Tok("c")), Call("L"))), L |-> M(Alt2(Seq2(Tok("a"), Seq2(Call("L"), Tok("b"))), Alt2(Seq2(Tok("a"), Tok("b")), Eps)))] >>
ImpureRead == <<
  [S |-> U(Alt2(Seq2(Call("R"), Seq2(Push, Seq2(Call("Z"), Tok("x")))), Seq2(Call("R"), Tok("c")))), R |-> M(IsNew), Z |-> M(Eps)] >>
ImpureWrite == <<
  [S |-> U(Alt2(Seq2(Call("W"), Seq2(Call("A"), Tok("b"))), Seq2(Call("W"), Seq2(Call("A"), Seq2(Pop, Seq2(IsNew, Tok("c"))))))),
   W |-> M(Seq2(Tok("w"), Push)), A |-> M(Tok("a"))] >>
Grammars == IF Family = "pure" THEN Pure ELSE IF Family = "impure_read" THEN ImpureRead ELSE ImpureWrite
Alphabet == IF Family = "pure" THEN {"a", "b", "c"} ELSE {"a", "c", "w", "x"}
Init == gi \in 1..Len(Grammars) /\ inp = <<>>
Next == Len(inp) < MaxLen /\ \E ch \in Alphabet : inp' = Append(inp, ch) /\ UNCHANGED gi
Spec == Init /\ [][Next]_<<gi, inp>>
TransparentInv == Transparent(Grammars[gi], inp, Caps)
CapsAll == {1, 2, 3}
=============================================================================
