SPECIFICATION Spec
CONSTANTS
  NThreads = 3
  Shared <- NoShared
  InputOf <- Inputs3
INVARIANT NonInterference
CHECK_DEADLOCK FALSE
