SPECIFICATION Spec
CONSTANTS
  Limit = 8
  Dev = {}
  MaxLen = 2
  Export = FALSE
INVARIANT ConcatEquiv
INVARIANT StripOnlyComments
INVARIANT NoCommentLeft
INVARIANT Fixpoint
CHECK_DEADLOCK FALSE
