SPECIFICATION Spec
CONSTANTS
  Dev = {}
  MaxLen = 4
  Alphabet <- Alpha9
  Export = TRUE
INVARIANT ExportInv
CHECK_DEADLOCK FALSE
