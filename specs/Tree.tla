-------------------------------- MODULE Tree --------------------------------
(***************************************************************************)
(* Syntax-tree traversal (sv-parser-syntaxtree/src/any_node.rs: Iter,      *)
(* EventIter) and the tiling of the text by the tree's tokens              *)
(* (sv-parser/src/lib.rs: get_str, get_str_trim; Locate).                  *)
(*                                                                         *)
(* A tree is a function ch : 1..N -> Seq(1..N) (ordered children), root 1. *)
(* Reference: Preorder(ch, n).  Machines, transcribed from the code, one   *)
(* pop per step:                                                           *)
(*   IterMachine   stack of nodes;  pop n; push children(n) reversed       *)
(*   EventMachine  stack of events; pop e; if e = Enter(n): push Leave(n), *)
(*                 then children(n) reversed as Enter events               *)
(* An event is an integer: n = Enter(n), -n = Leave(n).                    *)
(***************************************************************************)
EXTENDS Integers, Sequences, FiniteSets, TLC

Last(s) == s[Len(s)]
Front(s) == SubSeq(s, 1, Len(s) - 1)
Rev(s) == [i \in 1..Len(s) |-> s[Len(s) + 1 - i]]

RECURSIVE Preorder(_, _), PreorderSeq(_, _)
Preorder(ch, n) == <<n>> \o PreorderSeq(ch, ch[n])
PreorderSeq(ch, ns) == IF ns = <<>> THEN <<>> ELSE Preorder(ch, Head(ns)) \o PreorderSeq(ch, Tail(ns))

RECURSIVE EventsOf(_, _), EventsSeq(_, _)
EventsOf(ch, n) == <<n>> \o EventsSeq(ch, ch[n]) \o <<-n>>
EventsSeq(ch, ns) == IF ns = <<>> THEN <<>> ELSE EventsOf(ch, Head(ns)) \o EventsSeq(ch, Tail(ns))

\* ---- machines (state: [stack, out]) ----
IterInit(n) == [stack |-> <<n>>, out |-> <<>>]
IterDone(s) == s.stack = <<>>
IterStep(ch, s) ==
  LET n == Last(s.stack) IN [stack |-> Front(s.stack) \o Rev(ch[n]), out |-> Append(s.out, n)]

EventInit(n) == [stack |-> <<n>>, out |-> <<>>]
EventDone(s) == s.stack = <<>>
EventStep(ch, s) ==
  LET e == Last(s.stack) IN
  IF e > 0 THEN [stack |-> Front(s.stack) \o <<-e>> \o Rev(ch[e]), out |-> Append(s.out, e)]
  ELSE [stack |-> Front(s.stack), out |-> Append(s.out, e)]

IsPrefix(a, b) == Len(a) <= Len(b) /\ SubSeq(b, 1, Len(a)) = a

\* ---- properties of an event stream (used on the model and on recorded streams) ----
EnterProj(ev) == SelectSeq(ev, LAMBDA e : e > 0)
\* balanced and properly nested: scanning with a stack never mismatches and ends empty
RECURSIVE Nested(_, _, _)
Nested(ev, i, stack) ==
  IF i > Len(ev) THEN stack = <<>>
  ELSE IF ev[i] > 0 THEN Nested(ev, i + 1, Append(stack, ev[i]))
  ELSE stack # <<>> /\ Last(stack) = -ev[i] /\ Nested(ev, i + 1, Front(stack))
OnceEach(ev) == \A i, j \in 1..Len(ev) : (i # j /\ ev[i] = ev[j]) => FALSE

\* position of the Leave matching the Enter at position i
RECURSIVE MatchLeave(_, _, _)
MatchLeave(ev, j, n) == IF j > Len(ev) THEN 0 ELSE IF ev[j] = -n THEN j ELSE MatchLeave(ev, j + 1, n)
PosOfEnter(ev, n) == LET S == {i \in 1..Len(ev) : ev[i] = n} IN IF S = {} THEN 0 ELSE CHOOSE i \in S : TRUE
SubEvents(ev, n) == LET i == PosOfEnter(ev, n) IN IF i = 0 THEN <<>> ELSE SubSeq(ev, i, MatchLeave(ev, i + 1, n))

\* first node of the requested kinds in a pre-order node sequence (unwrap_node! / unwrap_locate!)
FirstOfKinds(nodes, kinds, ks) ==
  LET S == {i \in 1..Len(nodes) : kinds[nodes[i]] \in ks} IN
  IF S = {} THEN 0 ELSE nodes[CHOOSE i \in S : \A j \in S : i <= j]

\* ---- tiling (C01): leaves are <<offset, len, line>> ----
\* fold over the leaves: every leaf starts where the previous one ended, is non-empty, lies on
\* character boundaries, and its line is 1 + number of newlines before it
NewlinesBefore(nls, o) == Cardinality({i \in 1..Len(nls) : nls[i] < o})
RECURSIVE TileFrom(_, _, _, _, _)
TileFrom(lv, i, pos, nls, nonb) ==
  IF i > Len(lv) THEN [ok |-> TRUE, pos |-> pos, why |-> <<>>]
  ELSE LET l == lv[i] IN
       IF l[1] # pos THEN [ok |-> FALSE, pos |-> pos, why |-> <<"gap or overlap before leaf", i, l[1], pos>>]
       ELSE IF l[2] <= 0 THEN [ok |-> FALSE, pos |-> pos, why |-> <<"empty leaf", i>>]
       ELSE IF l[1] \in nonb \/ (l[1] + l[2]) \in nonb THEN [ok |-> FALSE, pos |-> pos, why |-> <<"leaf not on a character boundary", i>>]
       ELSE IF l[3] # 1 + NewlinesBefore(nls, l[1]) THEN [ok |-> FALSE, pos |-> pos, why |-> <<"wrong line", i, l[3], 1 + NewlinesBefore(nls, l[1])>>]
       ELSE TileFrom(lv, i + 1, pos + l[2], nls, nonb)
=============================================================================
