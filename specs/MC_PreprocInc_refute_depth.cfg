SPECIFICATION Spec
CONSTANTS
  Limit = 3
  Dev = {"DepthNotThreaded"}
  Mode = "graph"
  Export = FALSE
INVARIANT StackBounded
CHECK_DEADLOCK FALSE
