-------------------------- MODULE MacroBody_Trace --------------------------
(***************************************************************************)
(* Trace validation for MacroBody (C05 at byte level).  One record per     *)
(* "subst" hook event of the real preprocessor (resolve_text_macro_usage,  *)
(* after the substitution loop, before the rescan):                        *)
(*   body     the macro text as stored in the define table (characters)    *)
(*   formals  <<name, bound value>> pairs of the usage (arg_map)           *)
(*   replaced the substituted text the code produced                       *)
(* Judged: replaced = Ref(body, formals).out up to leading white space for *)
(* every DECIDED body.  Whether the code still follows the transcription   *)
(* (Machine) is reported as DRIFT, not as a violation: it tells that the   *)
(* model checking results of MC_MacroBody no longer speak about this code. *)
(* Every bound value must be Closed (MacroActual): an actual argument that *)
(* ends inside a one-line comment would swallow what follows the formal    *)
(* and the text behind the usage (D27).                                    *)
(***************************************************************************)
EXTENDS MacroBody, MacroActual, Json, IOUtils
Rec == ndJsonDeserialize(IOEnv.TRACE)

Judge(r) ==
  LET x == Ref(r.body, r.formals)
      open == {k \in 1..Len(r.formals) : ~Closed(r.formals[k][2])} IN
  IF open # {} THEN <<"a bound actual argument ends inside a one-line comment (its line break was lost)", ToString(r.formals[CHOOSE k \in open : TRUE])>>
  ELSE IF ~x.dec THEN <<>>
  ELSE IF StripLead(r.replaced) # StripLead(x.out)
       THEN <<"substituted body differs from the IEEE 22.5.1 reading", ToString(Flat(<< r.body >>)), "code", ToString(r.replaced), "expected", ToString(x.out)>>
       ELSE <<>>

VARIABLES l, nbad, nund, ndrift
Init == l = 1 /\ nbad = 0 /\ nund = 0 /\ ndrift = 0
Next ==
  /\ l <= Len(Rec)
  /\ LET r == Rec[l]
         v == Judge(r)
         und == ~Ref(r.body, r.formals).dec
         drift == Machine(r.body, r.formals) # r.replaced
     IN /\ IF v = <<>> THEN nbad' = nbad
           ELSE /\ PrintT("BAD|" \o r.id \o "|" \o ToString(v))
                /\ nbad' = nbad + 1
        /\ nund' = nund + (IF und THEN 1 ELSE 0)
        /\ ndrift' = ndrift + (IF drift THEN 1 ELSE 0)
        /\ (drift => PrintT("DRIFT|" \o r.id))
        /\ l' = l + 1
        /\ (l = Len(Rec) => PrintT("SUMMARY|" \o ToString(l) \o "|" \o ToString(nbad') \o "|" \o ToString(nund') \o "|" \o ToString(ndrift')))
Spec == Init /\ [][Next]_<<l, nbad, nund, ndrift>>
=============================================================================
