------------------------------- MODULE MC_Api -------------------------------
(***************************************************************************)
(* Model of the entry points as compositions over two uninterpreted        *)
(* functions PP(src, ign, strip) and PARSE(text, inc), for all flag        *)
(* vectors.  Wiring is a constant: "faithful" passes every named flag to   *)
(* the parameter of that name; "swapped" passes (strip, ign) of preprocess *)
(* into preprocess_str in the wrong order - TLC must then refute the       *)
(* equations (sanity check that the model can see the bug C20 is about).   *)
(***************************************************************************)
EXTENDS Api
CONSTANTS Wiring
VARIABLES ign, strip, inc, done
vars == <<ign, strip, inc, done>>

\* uninterpreted results: the result is just the tuple of what reached the function
PPstr(src, i, s) == [outcome |-> "ok", fp |-> "", defs |-> <<>>, err |-> <<>>, text |-> <<"pp", src, i, s>>]
PPfile(path, s, i) == IF Wiring = "faithful" THEN PPstr(<<"read", path>>, i, s) ELSE PPstr(<<"read", path>>, s, i)
ParsePp(t, n) == [outcome |-> "ok", fp |-> <<"tree", t.text, n>>, defs |-> <<>>, err |-> <<>>, text |-> t.text]
ParseFile(path, i, n) == ParsePp(PPfile(path, FALSE, i), n)
ParseStr(src, i, n) == ParsePp(PPstr(src, i, FALSE), n)

Calls == <<
  [fn |-> "preprocess",     fam |-> "pp", ign |-> ign, strip |-> strip, inc |-> FALSE, res |-> PPfile("p", strip, ign)],
  [fn |-> "preprocess_str", fam |-> "pp", ign |-> ign, strip |-> strip, inc |-> FALSE, res |-> PPstr(<<"read", "p">>, ign, strip)],
  [fn |-> "parse_sv",       fam |-> "sv", ign |-> ign, strip |-> FALSE, inc |-> inc, res |-> ParseFile("p", ign, inc)],
  [fn |-> "parse_sv_str",   fam |-> "sv", ign |-> ign, strip |-> FALSE, inc |-> inc, res |-> ParseStr(<<"read", "p">>, ign, inc)],
  [fn |-> "two_step",       fam |-> "sv", ign |-> ign, strip |-> FALSE, inc |-> inc, res |-> ParsePp(PPfile("p", FALSE, ign), inc)] >>

Init == ign \in BOOLEAN /\ strip \in BOOLEAN /\ inc \in BOOLEAN /\ done = FALSE
Next == ~done /\ done' = TRUE /\ UNCHANGED <<ign, strip, inc>>
Spec == Init /\ [][Next]_vars
EntryPointsAgree == ClassAgreement(Calls) = {}
=============================================================================
