------------------------------ MODULE Grammar ------------------------------
(***************************************************************************)
(* A subset of IEEE 1800-2017 Annex A as a leftmost-derivation machine     *)
(* (C02; sentence supplier for C01, C12-C17).                              *)
(*                                                                         *)
(* Prod[nt] is a sequence of alternatives [rhs, node, c].  A symbol is     *)
(*   K(x) keyword  S(x) symbol  N(x) non-terminal  I identifier slot       *)
(*   L(c) literal of class c (c is the Annex A node kind of the literal)   *)
(* node # "" : this alternative IS that Annex A node; if the alternative's *)
(* right-hand side has an identifier slot, the FIRST one is the            *)
(* construct's identifier (expectation <<node, identifier>>), otherwise    *)
(* the expectation is <<node, "">> (counted).                              *)
(* c is the cost of the alternative: 1 for alternatives that make the      *)
(* sentence grow (only allowed while budget is left), 0 otherwise; every   *)
(* non-terminal has a cost-0 alternative whose expansion terminates.       *)
(*                                                                         *)
(* Where Annex A is ambiguous and the parser's PEG order decides, the      *)
(* grammar does not generate the ambiguous sentence (DESIGN.md C02):       *)
(* - a begin-end block never starts with a plain blocking assignment       *)
(*   (`y = a;` is also a declaration with implicit type);                  *)
(* - variables are declared with a built-in type, never with a user type;  *)
(* - the number of a delay control is a plain symbol, not a literal (its   *)
(*   node kind differs from expression literals); plain identifiers in     *)
(*   constant expressions are parsed as function calls, so TfCall is not   *)
(*   a tracked kind.                                                       *)
(***************************************************************************)
EXTENDS Naturals, Sequences, FiniteSets, TLC

K(x) == [t |-> "kw", v |-> x]
S(x) == [t |-> "sym", v |-> x]
N(x) == [t |-> "nt", v |-> x]
I == [t |-> "id", v |-> ""]
L(c) == [t |-> "lit", v |-> c]
A(rhs) == [rhs |-> rhs, node |-> "", c |-> 0]
G(rhs) == [rhs |-> rhs, node |-> "", c |-> 1]              \* growing alternative
AT(rhs, node) == [rhs |-> rhs, node |-> node, c |-> 0]
Rng == <<S("["), L("DecimalNumber"), S(":"), L("DecimalNumber"), S("]")>>
GT(rhs, node) == [rhs |-> rhs, node |-> node, c |-> 1]

\* one representative text per literal class and position in the class's list
LitTexts == [
  DecimalNumber |-> <<"12", "8'd3", "'d7", "1_000">>,
  BinaryNumber  |-> <<"4'b10x1", "'b01", "2'sb11", "3'B1z?">>,
  OctalNumber   |-> <<"6'o17", "'o7", "3'O2">>,
  HexNumber     |-> <<"8'hFF", "'h1F", "16'shdead", "4'Hx">>,
  RealNumber    |-> <<"1.5", "1.5e3", "2e-3", "0.25E+2">>,
  UnbasedUnsizedLiteral |-> <<"'0", "'1", "'x", "'z">>,
  StringLiteral |-> <<"\"s\"", "\"a b\"", "\"q\\\"r\"", "\"\"">>,
  TimeLiteral   |-> <<"10ns", "1.5us", "3ps", "2s">> ]

\* adversarial identifier pool: keyword-prefixed names, $ inside, leading underscore, mixed case, escaped
IdPool == <<"module_x", "end", "wirex", "begin_", "int", "Module", "a$b", "_x", "endmodule_", "\\esc+id">>
IdText(k) == LET b == IdPool[((k - 1) % Len(IdPool)) + 1] IN
             IF b = "\\esc+id" THEN b \o ToString(k) ELSE b \o ToString(k)
IsEscaped(t) == Len(t) > 0 /\ SubSeq(t, 1, 1) = "\\"

Prod == [
  source |-> << A(<<N("description")>>), G(<<N("description"), N("source")>>) >>,
  description |-> << A(<<N("module_ansi")>>), A(<<N("module_nonansi")>>), A(<<N("interface_decl")>>),
                     A(<<N("program_decl")>>), A(<<N("package_decl")>>), A(<<N("class_decl")>>), A(<<N("full_form")>>) >>,
  \* design elements written with EVERY optional part (lifetime, imports, parameter and port lists, time units, end
  \* labels, wildcard ports ...): these are the nodes with 8 to 11 children, whose children must come out in source order
  full_form |-> << AT(<<K("module"), I, S("("), S(".*"), S(")"), S(";"), N("timeunits"), N("module_items"), K("endmodule"), S(":"), N("ident")>>, "ModuleDeclarationWildcard"),
                   AT(<<K("macromodule"), K("automatic"), I, S("("), S(".*"), S(")"), S(";"), N("timeunits"), N("net_decl"), K("endmodule"), S(":"), N("ident")>>, "ModuleDeclarationWildcard"),
                   AT(<<K("interface"), K("static"), I, S("("), S(".*"), S(")"), S(";"), N("timeunits"), N("var_decl"), K("endinterface"), S(":"), N("ident")>>, "InterfaceDeclarationWildcard"),
                   AT(<<K("program"), I, S("("), S(".*"), S(")"), S(";"), N("timeunits"), N("initial"), K("endprogram"), S(":"), N("ident")>>, "ProgramDeclarationWildcard"),
                   AT(<<K("module"), K("automatic"), I, N("import_decl"), N("opt_param_ports"), N("opt_ansi_ports"), S(";"), N("timeunits"), N("module_items"), K("endmodule"), S(":"), N("ident")>>, "ModuleDeclarationAnsi"),
                   AT(<<K("module"), K("static"), I, N("import_decl"), S("#"), S("("), N("param_port"), S(")"), S("("), N("port_ref"), S(","), N("port_ref"), S(")"), S(";"),
                        N("timeunits"), N("port_decl_in"), N("port_decl_out"), K("endmodule"), S(":"), N("ident")>>, "ModuleDeclarationNonansi"),
                   AT(<<K("package"), K("automatic"), I, S(";"), N("timeunits"), N("pkg_items"), K("endpackage"), S(":"), N("ident")>>, "PackageDeclaration"),
                   AT(<<K("virtual"), K("class"), K("automatic"), I, S("#"), S("("), N("param_port"), S(")"), K("extends"), N("class_ref"), S("("), N("const_expr"), S(")"),
                        K("implements"), N("class_ref"), S(","), N("class_ref"), S(";"), N("class_items"), N("ctor"), K("endclass"), S(":"), N("ident")>>, "ClassDeclaration"),
                   AT(<<K("interface"), K("class"), I, S("#"), S("("), N("param_port"), S(")"), K("extends"), N("class_ref"), S(","), N("class_ref"), S(";"),
                        K("pure"), K("virtual"), K("function"), K("int"), N("ident"), S("("), S(")"), S(";"), K("endclass"), S(":"), N("ident")>>, "InterfaceClassDeclaration") >>,
  timeunits |-> << A(<<K("timeunit"), L("TimeLiteral"), S(";"), K("timeprecision"), L("TimeLiteral"), S(";")>>), A(<<K("timeunit"), L("TimeLiteral"), S("/"), L("TimeLiteral"), S(";")>>) >>,
  ctor |-> << A(<<K("function"), K("new"), S("("), N("tf_ports"), S(")"), S(";"), N("var_decl"), K("super"), S("."), K("new"), S("("), N("expr"), S(")"), S(";"),
                  N("nonblocking"), K("endfunction"), S(":"), K("new")>>) >>,

  \* ---- modules ----
  module_ansi |-> << AT(<<K("module"), I, N("opt_param_ports"), N("opt_ansi_ports"), S(";"), N("module_items"), K("endmodule")>>, "ModuleDeclarationAnsi") >>,
  module_nonansi |-> << AT(<<K("module"), I, S("("), N("port_ref"), S(","), N("port_ref"), S(")"), S(";"),
                            N("port_decl_in"), N("port_decl_out"), N("module_items"), K("endmodule")>>, "ModuleDeclarationNonansi") >>,
  port_ref |-> << A(<<I>>) >>,
  port_decl_in  |-> << A(<<K("input"), I, S(";")>>), A(<<K("input"), K("wire"), N("range"), I, S(";")>>) >>,
  port_decl_out |-> << A(<<K("output"), I, S(";")>>), A(<<K("output"), K("logic"), I, S(";")>>) >>,
  opt_param_ports |-> << A(<<>>), G(<<S("#"), S("("), N("param_port"), N("more_param_ports"), S(")")>>) >>,
  more_param_ports |-> << A(<<>>), G(<<S(","), N("param_port"), N("more_param_ports")>>) >>,
  param_port |-> << AT(<<K("parameter"), I, S("="), N("const_expr")>>, "ParamAssignment"),
                    AT(<<K("parameter"), K("int"), I, S("="), N("const_expr")>>, "ParamAssignment"),
                    AT(<<K("localparam"), K("int"), I, S("="), N("const_expr")>>, "ParamAssignment") >>,
  opt_ansi_ports |-> << A(<<>>), A(<<S("("), S(")")>>), G(<<S("("), N("ansi_port"), N("more_ansi_ports"), S(")")>>) >>,
  more_ansi_ports |-> << A(<<>>), G(<<S(","), N("ansi_port"), N("more_ansi_ports")>>) >>,
  ansi_port |-> << AT(<<K("input"), I>>, "AnsiPortDeclaration"), AT(<<K("input"), K("logic"), I>>, "AnsiPortDeclaration"),
                   AT(<<K("output"), K("wire")>> \o Rng \o <<I>>, "AnsiPortDeclaration"), AT(<<K("inout"), I>>, "AnsiPortDeclaration"),
                   AT(<<K("output"), K("logic")>> \o Rng \o <<I>>, "AnsiPortDeclaration"), AT(<<K("input"), K("int"), I>>, "AnsiPortDeclaration") >>,
  range |-> << A(Rng) >>,

  module_items |-> << A(<<>>), G(<<N("module_item"), N("module_items")>>) >>,
  module_item |-> << A(<<N("net_decl")>>), A(<<N("var_decl")>>), A(<<N("typedef_decl")>>), A(<<N("cont_assign")>>),
                     A(<<N("always")>>), A(<<N("initial")>>), A(<<N("final")>>), A(<<N("inst")>>),
                     A(<<N("genvar_decl")>>), A(<<N("generate_region")>>), A(<<N("gen_if")>>), A(<<N("gen_for")>>), A(<<N("gen_case")>>),
                     A(<<N("function_decl")>>), A(<<N("task_decl")>>), A(<<N("param_stmt")>>), A(<<N("import_decl")>>), A(<<N("full_sub")>>),
                     A(<<N("assertion_decl")>>) >>,
  \* property / sequence declarations with ports, local variables, end labels; concurrent assertions; clocking; covergroup
  avar_decl |-> << AT(<<K("logic"), I, S(";")>>, "VariableDeclAssignment"), AT(<<K("int"), I, S("="), L("DecimalNumber"), S(";")>>, "VariableDeclAssignment") >>,
  assertion_decl |-> << A(<<K("property"), N("ident"), S("("), N("ident"), S(","), N("ident"), S(")"), S(";"), N("avar_decl"),
                            S("@"), S("("), K("posedge"), N("ident"), S(")"), N("ident"), S("|->"), S("##"), L("DecimalNumber"), N("ident"), S(";"), K("endproperty"), S(":"), N("ident")>>),
                        A(<<K("sequence"), N("ident"), S("("), N("ident"), S(")"), S(";"), N("avar_decl"),
                            S("@"), S("("), K("posedge"), N("ident"), S(")"), N("ident"), S("##"), L("DecimalNumber"), N("ident"), S(";"), K("endsequence"), S(":"), N("ident")>>),
                        A(<<N("ident"), S(":"), K("assert"), K("property"), S("("), S("@"), S("("), K("posedge"), N("ident"), S(")"), K("disable"), K("iff"), S("("), N("ident"), S(")"),
                            N("ident"), S("|=>"), N("ident"), S(")"), N("systf_call"), K("else"), N("systf_call")>>),
                        A(<<K("cover"), K("property"), S("("), S("@"), S("("), K("posedge"), N("ident"), S(")"), N("ident"), S("##"), S("["), L("DecimalNumber"), S(":"), L("DecimalNumber"), S("]"), N("ident"), S(")"), S(";")>>),
                        A(<<K("default"), K("clocking"), N("ident"), S("@"), S("("), K("posedge"), N("ident"), S(")"), S(";"), K("default"), K("input"), S("#"), S("1"), K("output"), S("#"), S("2"), S(";"),
                            K("input"), N("ident"), S(","), N("ident"), S(";"), K("endclocking"), S(":"), N("ident")>>),
                        A(<<K("covergroup"), N("ident"), S("("), K("input"), K("int"), N("ident"), S(")"), S("@"), S("("), K("posedge"), N("ident"), S(")"), S(";"),
                            N("ident"), S(":"), K("coverpoint"), N("ident"), S("{"), K("bins"), N("ident"), S("="), S("{"), S("["), L("DecimalNumber"), S(":"), L("DecimalNumber"), S("]"), S("}"), S(";"), S("}"),
                            K("endgroup"), S(":"), N("ident")>>) >>,

  \* ---- declarations ----
  net_decl |-> << AT(<<K("wire"), I, S(";")>>, "NetDeclAssignment"), AT(<<K("wire")>> \o Rng \o <<I, S(";")>>, "NetDeclAssignment"),
                  AT(<<K("wire"), I, S("="), N("expr"), S(";")>>, "NetDeclAssignment"), AT(<<K("tri"), I, S(";")>>, "NetDeclAssignment"),
                  AT(<<K("wand"), K("signed")>> \o Rng \o <<I, S(";")>>, "NetDeclAssignment"),
                  AT(<<K("wor"), I, S(";")>>, "NetDeclAssignment"), AT(<<K("tri0"), I, S(";")>>, "NetDeclAssignment"), AT(<<K("tri1"), I, S(";")>>, "NetDeclAssignment"),
                  AT(<<K("supply0"), I, S(";")>>, "NetDeclAssignment"), AT(<<K("supply1"), I, S(";")>>, "NetDeclAssignment"), AT(<<K("uwire"), I, S(";")>>, "NetDeclAssignment"),
                  AT(<<K("triand"), I, S(";")>>, "NetDeclAssignment"), AT(<<K("trior"), I, S(";")>>, "NetDeclAssignment"),
                  AT(<<K("wire"), K("logic")>> \o Rng \o <<I, S(";")>>, "NetDeclAssignment"),
                  AT(<<K("wire"), S("#"), S("2"), I, S(";")>>, "NetDeclAssignment"),
                  AT(<<K("wire"), S("("), K("strong0"), S(","), K("weak1"), S(")"), I, S("="), L("DecimalNumber"), S(";")>>, "NetDeclAssignment"),
                  AT(<<K("wire"), K("vectored")>> \o Rng \o <<I, S(";")>>, "NetDeclAssignment"),
                  AT(<<K("wire"), I>> \o Rng \o <<S(";")>>, "NetDeclAssignment") >>,
  var_decl |-> << AT(<<K("logic"), I, S(";")>>, "VariableDeclAssignment"), AT(<<K("int"), I, S(";")>>, "VariableDeclAssignment"),
                  AT(<<K("logic")>> \o Rng \o <<I, S(";")>>, "VariableDeclAssignment"), AT(<<K("reg")>> \o Rng \o <<I, S(";")>>, "VariableDeclAssignment"),
                  AT(<<K("bit"), I, S("="), N("expr"), S(";")>>, "VariableDeclAssignment"), AT(<<K("real"), I, S(";")>>, "VariableDeclAssignment"),
                  AT(<<K("integer"), I, S(";")>>, "VariableDeclAssignment"), AT(<<K("byte"), K("unsigned"), I, S(";")>>, "VariableDeclAssignment"),
                  \* unpacked dimensions, queues, associative and dynamic arrays, strings, events, time, multiple packed dimensions
                  AT(<<K("logic")>> \o Rng \o <<I>> \o Rng \o <<S(";")>>, "VariableDeclAssignment"),
                  AT(<<K("int"), I, S("["), S("$"), S("]"), S(";")>>, "VariableDeclAssignment"),
                  AT(<<K("int"), I, S("["), K("string"), S("]"), S(";")>>, "VariableDeclAssignment"),
                  AT(<<K("bit"), I, S("["), S("]"), S(";")>>, "VariableDeclAssignment"),
                  AT(<<K("string"), I, S("="), L("StringLiteral"), S(";")>>, "VariableDeclAssignment"),
                  AT(<<K("event"), I, S(";")>>, "VariableDeclAssignment"), AT(<<K("time"), I, S(";")>>, "VariableDeclAssignment"),
                  AT(<<K("logic")>> \o Rng \o Rng \o <<I, S(";")>>, "VariableDeclAssignment"),
                  AT(<<K("var"), K("logic"), I, S(";")>>, "VariableDeclAssignment"), AT(<<K("const"), K("int"), I, S("="), L("DecimalNumber"), S(";")>>, "VariableDeclAssignment"),
                  AT(<<K("static"), K("int"), I, S(";")>>, "VariableDeclAssignment"), AT(<<K("shortint"), I, S(";")>>, "VariableDeclAssignment"),
                  AT(<<K("longint"), K("unsigned"), I, S(";")>>, "VariableDeclAssignment"), AT(<<K("shortreal"), I, S(";")>>, "VariableDeclAssignment"),
                  AT(<<K("realtime"), I, S(";")>>, "VariableDeclAssignment"), AT(<<K("chandle"), I, S(";")>>, "VariableDeclAssignment") >>,
  typedef_decl |-> << AT(<<K("typedef"), K("logic"), N("range"), N("type_name"), S(";")>>, "TypeDeclaration"),
                      AT(<<K("typedef"), K("int"), N("type_name"), S(";")>>, "TypeDeclaration"),
                      AT(<<K("typedef"), K("enum"), S("{"), N("enum_name"), S(","), N("enum_name"), S("}"), N("type_name"), S(";")>>, "TypeDeclaration"),
                      AT(<<K("typedef"), K("struct"), K("packed"), S("{"), K("logic"), N("member"), S(";"), K("int"), N("member"), S(";"), S("}"), N("type_name"), S(";")>>, "TypeDeclaration") >>,
  type_name |-> << AT(<<I>>, "TypeIdentifier") >>,
  enum_name |-> << A(<<I>>) >>,
  member |-> << AT(<<I>>, "VariableDeclAssignment") >>,
  param_stmt |-> << AT(<<K("parameter"), I, S("="), N("const_expr"), S(";")>>, "ParamAssignment"),
                    AT(<<K("localparam"), K("int"), I, S("="), N("const_expr"), S(";")>>, "ParamAssignment") >>,
  import_decl |-> << AT(<<K("import"), N("pkg_ref"), S("::"), S("*"), S(";")>>, "PackageImportDeclaration") >>,
  pkg_ref |-> << A(<<I>>) >>,
  genvar_decl |-> << AT(<<K("genvar"), I, S(";")>>, "GenvarDeclaration") >>,

  \* ---- continuous assignment, procedural blocks ----
  cont_assign |-> << AT(<<K("assign"), N("lvalue"), S("="), N("expr"), S(";")>>, "ContinuousAssign") >>,
  always |-> << AT(<<K("always_ff"), S("@"), S("("), K("posedge"), N("ident"), S(")"), N("stmt")>>, "AlwaysConstruct"),
                AT(<<K("always_comb"), N("stmt_nn")>>, "AlwaysConstruct"),
                AT(<<K("always"), S("@"), S("("), S("*"), S(")"), N("stmt")>>, "AlwaysConstruct"),
                AT(<<K("always_latch"), N("stmt_nn")>>, "AlwaysConstruct"),
                AT(<<K("always"), S("@"), S("("), N("ident"), K("or"), K("negedge"), N("ident"), S(")"), N("stmt")>>, "AlwaysConstruct") >>,
  initial |-> << AT(<<K("initial"), N("stmt")>>, "InitialConstruct") >>,
  final |-> << AT(<<K("final"), N("stmt_nn")>>, "FinalConstruct") >>,

  \* ---- statements ----
  stmt |-> << A(<<N("stmt_nn")>>), A(<<S(";")>>) >>,          \* statement_or_null
  stmt_nn |-> << A(<<N("nonblocking")>>), A(<<N("blocking")>>), A(<<N("systf_call")>>),
              G(<<N("if_stmt")>>), G(<<N("case_stmt")>>), G(<<N("for_stmt")>>), G(<<N("while_stmt")>>), G(<<N("seq_block")>>),
              G(<<N("tf_call_stmt")>>), G(<<S("#"), S("10"), N("stmt")>>), G(<<S("@"), S("("), K("posedge"), N("ident"), S(")"), N("stmt")>>),
              G(<<N("more_stmt")>>) >>,
  \* further statement forms (A.6): jumps, waits, disable, fork-join, immediate assertions, inc/dec, compound assignment,
  \* do-while / foreach loops, procedural continuous assignment, event trigger, method call statement
  more_stmt |-> << A(<<K("break"), S(";")>>), A(<<K("continue"), S(";")>>), A(<<K("return"), S(";")>>),
                   G(<<K("wait"), S("("), N("expr"), S(")"), N("stmt")>>), A(<<K("disable"), N("ident"), S(";")>>), A(<<K("disable"), K("fork"), S(";")>>),
                   A(<<K("wait"), K("fork"), S(";")>>),
                   G(<<K("fork"), N("stmts"), K("join")>>), G(<<K("fork"), N("stmts"), K("join_any")>>), G(<<K("fork"), S(":"), N("ident"), N("stmts"), K("join_none")>>),
                   G(<<K("assert"), S("("), N("expr"), S(")"), N("stmt")>>), G(<<K("assert"), S("("), N("expr"), S(")"), N("systf_call"), K("else"), N("else_stmt")>>), G(<<K("assert"), S("("), N("expr"), S(")"), K("else"), N("else_stmt")>>),
                   G(<<K("assume"), S("("), N("expr"), S(")"), S(";")>>), G(<<N("ident"), S(":"), K("cover"), S("("), N("expr"), S(")"), S(";")>>),
                   A(<<N("ident"), S("++"), S(";")>>), A(<<S("--"), N("ident"), S(";")>>),
                   G(<<N("lvalue"), S("+="), N("expr"), S(";")>>), G(<<N("lvalue"), S("<<="), N("expr"), S(";")>>), G(<<N("lvalue"), S("|="), N("expr"), S(";")>>),
                   AT(<<K("do"), N("stmt"), K("while"), S("("), N("expr"), S(")"), S(";")>>, "LoopStatement"),
                   AT(<<K("foreach"), S("("), N("ident"), S("["), N("ident"), S("]"), S(")"), N("stmt_nn")>>, "LoopStatement"),
                   G(<<K("assign"), N("ident"), S("="), N("expr"), S(";")>>), A(<<K("deassign"), N("ident"), S(";")>>),
                   G(<<K("force"), N("ident"), S("="), N("expr"), S(";")>>), A(<<K("release"), N("ident"), S(";")>>),
                   A(<<S("->"), N("ident"), S(";")>>), A(<<S("->>"), N("ident"), S(";")>>),
                   G(<<N("ident"), S("."), N("ident"), S("("), N("expr"), S(")"), S(";")>>),
                   G(<<N("lvalue"), S("="), S("#"), S("5"), N("expr"), S(";")>>), AT(<<N("lvalue"), S("<="), S("@"), S("("), K("negedge"), N("ident"), S(")"), N("expr"), S(";")>>, "NonblockingAssignment") >>,
  \* first statement of a begin-end block: never a plain blocking assignment (see module comment)
  stmt_first |-> << A(<<N("nonblocking")>>), A(<<N("systf_call")>>), A(<<S(";")>>), G(<<N("if_stmt")>>), G(<<N("case_stmt")>>), G(<<N("seq_block")>>) >>,
  blocking |-> << G(<<N("lvalue"), S("="), N("expr"), S(";")>>), A(<<N("ident"), S("="), L("DecimalNumber"), S(";")>>) >>,
  nonblocking |-> << AT(<<N("lvalue"), S("<="), N("expr"), S(";")>>, "NonblockingAssignment"),
                     AT(<<N("ident"), S("<="), N("ident"), S(";")>>, "NonblockingAssignment") >>,
  \* conditional_statement: an "else if" chain is ONE ConditionalStatement (A.6.6), so the else branch is
  \* either a chain link of the same node or a statement that is not itself an if
  if_stmt |-> << AT(<<K("if"), S("("), N("expr"), S(")"), N("stmt")>>, "ConditionalStatement"),
                 AT(<<K("if"), S("("), N("expr"), S(")"), N("stmt"), K("else"), N("else_stmt")>>, "ConditionalStatement"),
                 AT(<<K("if"), S("("), N("expr"), S(")"), N("stmt"), K("else"), K("if"), S("("), N("expr"), S(")"), N("stmt"), K("else"), N("else_stmt")>>, "ConditionalStatement"),
                 AT(<<K("unique"), K("if"), S("("), N("expr"), S(")"), N("stmt"), K("else"), K("if"), S("("), N("expr"), S(")"), N("stmt")>>, "ConditionalStatement") >>,
  else_stmt |-> << A(<<N("nonblocking")>>), A(<<S(";")>>), A(<<N("systf_call")>>), G(<<N("seq_block")>>), G(<<N("case_stmt")>>) >>,
  case_stmt |-> << AT(<<K("case"), S("("), N("expr"), S(")"), N("case_item"), K("endcase")>>, "CaseStatement"),
                   AT(<<K("casez"), S("("), N("expr"), S(")"), N("case_item"), N("case_item"), K("default"), S(":"), N("stmt"), K("endcase")>>, "CaseStatement") >>,
  case_item |-> << A(<<L("DecimalNumber"), S(":"), N("stmt")>>), A(<<L("BinaryNumber"), S(","), L("HexNumber"), S(":"), N("stmt")>>) >>,
  for_stmt |-> << AT(<<K("for"), S("("), K("int"), N("ident"), S("="), L("DecimalNumber"), S(";"), N("ident"), S("<"), L("DecimalNumber"), S(";"), N("ident"), S("++"), S(")"), N("stmt")>>, "LoopStatement") >>,
  while_stmt |-> << AT(<<K("while"), S("("), N("expr"), S(")"), N("stmt")>>, "LoopStatement"),
                    AT(<<K("repeat"), S("("), L("DecimalNumber"), S(")"), N("stmt")>>, "LoopStatement"),
                    AT(<<K("forever"), N("stmt")>>, "LoopStatement") >>,
  seq_block |-> << AT(<<K("begin"), K("end")>>, "SeqBlock"),
                   AT(<<K("begin"), N("stmt_first"), N("stmts"), K("end")>>, "SeqBlock"),
                   AT(<<K("begin"), S(":"), N("ident"), N("stmt_first"), N("stmts"), K("end")>>, "SeqBlock") >>,
  stmts |-> << A(<<>>), G(<<N("stmt"), N("stmts")>>) >>,
  systf_call |-> << AT(<<S("$display"), S("("), L("StringLiteral"), S(")"), S(";")>>, "SystemTfCall"),
                    AT(<<S("$display"), S("("), L("StringLiteral"), S(","), N("expr"), S(")"), S(";")>>, "SystemTfCall"),
                    AT(<<S("$finish"), S(";")>>, "SystemTfCall") >>,
  tf_call_stmt |-> << A(<<N("ident"), S("("), N("expr"), S(","), N("expr"), S(")"), S(";")>>) >>,
  lvalue |-> << A(<<N("ident")>>), A(<<N("ident"), S("["), L("DecimalNumber"), S("]")>>),
                A(<<S("{"), N("ident"), S(","), N("ident"), S("}")>>), A(<<N("ident")>> \o Rng) >>,
  ident |-> << A(<<I>>) >>,

  \* ---- expressions ----
  expr |-> << A(<<N("primary")>>), G(<<N("primary"), N("binop"), N("expr")>>), G(<<N("unop"), N("primary")>>),
              G(<<N("primary"), S("?"), N("expr"), S(":"), N("expr")>>), G(<<S("("), N("expr"), S(")")>>) >>,
  const_expr |-> << A(<<L("DecimalNumber")>>), A(<<L("HexNumber")>>), G(<<L("DecimalNumber"), N("binop"), L("DecimalNumber")>>),
                    A(<<L("RealNumber")>>), A(<<L("StringLiteral")>>), A(<<L("BinaryNumber")>>), A(<<L("OctalNumber")>>) >>,
  primary |-> << A(<<N("ident")>>), A(<<L("DecimalNumber")>>), A(<<L("BinaryNumber")>>), A(<<L("OctalNumber")>>), A(<<L("HexNumber")>>),
                 A(<<L("RealNumber")>>), A(<<L("UnbasedUnsizedLiteral")>>), A(<<L("StringLiteral")>>), A(<<L("TimeLiteral")>>),
                 G(<<S("{"), N("expr"), S(","), N("expr"), S("}")>>), G(<<S("{"), L("DecimalNumber"), S("{"), N("expr"), S("}"), S("}")>>),
                 G(<<N("ident"), S("["), N("expr"), S("]")>>), A(<<N("ident")>> \o Rng),
                 G(<<N("ident"), S("("), N("expr"), S(")")>>), A(<<N("ident"), S("."), N("ident"), S("."), N("ident")>>),
                 A(<<N("ident"), S("["), N("ident"), S("+:"), L("DecimalNumber"), S("]")>>),
                 \* method calls and chains of them, casts, inside, assignment patterns, streaming, system functions, min:typ:max
                 G(<<N("ident"), S("."), N("ident"), S("("), S(")")>>),
                 G(<<N("ident"), S("."), N("ident"), S("("), S(")"), S("."), N("ident"), S("("), S(")"), S("."), N("ident"), S("("), N("expr"), S(")")>>),
                 G(<<N("ident"), S("."), N("ident"), S("("), N("expr"), S(")"), S("."), N("ident"), S("("), S(")"), S("."), N("ident"), S("("), S(")"), S("."), N("ident"), S("("), S(")")>>),
                 G(<<K("int"), S("'"), S("("), N("expr"), S(")")>>), G(<<K("signed"), S("'"), S("("), N("expr"), S(")")>>),
                 G(<<L("DecimalNumber"), S("'"), S("("), N("expr"), S(")")>>),
                 G(<<S("("), N("expr"), K("inside"), S("{"), L("DecimalNumber"), S(","), S("["), L("DecimalNumber"), S(":"), L("DecimalNumber"), S("]"), S("}"), S(")")>>),
                 G(<<S("'{"), N("expr"), S(","), N("expr"), S("}")>>), G(<<S("'{"), K("default"), S(":"), N("expr"), S("}")>>),
                 G(<<S("{"), S("<<"), S("{"), N("expr"), S("}"), S("}")>>), G(<<S("{"), S(">>"), L("DecimalNumber"), S("{"), N("expr"), S(","), N("expr"), S("}"), S("}")>>),
                 GT(<<S("$clog2"), S("("), N("expr"), S(")")>>, "SystemTfCall"), AT(<<S("$bits"), S("("), N("ident"), S(")")>>, "SystemTfCall"), AT(<<S("$time")>>, "SystemTfCall"),
                 G(<<S("("), N("expr"), S(":"), N("expr"), S(":"), N("expr"), S(")")>>),
                 A(<<N("ident"), S("::"), N("ident")>>), A(<<K("this"), S("."), N("ident")>>), A(<<K("null")>>), A(<<S("$")>>),
                 G(<<N("ident"), S("["), N("expr"), S("]"), S("["), N("expr"), S("]"), S("."), N("ident")>>) >>,
  binop |-> << A(<<S("+")>>), A(<<S("-")>>), A(<<S("*")>>), A(<<S("/")>>), A(<<S("%")>>), A(<<S("==")>>), A(<<S("!=")>>), A(<<S("===")>>),
               A(<<S("!==")>>), A(<<S("&&")>>), A(<<S("||")>>), A(<<S("**")>>), A(<<S("<")>>), A(<<S("<=")>>), A(<<S(">")>>), A(<<S(">=")>>),
               A(<<S("&")>>), A(<<S("|")>>), A(<<S("^")>>), A(<<S("^~")>>), A(<<S("~^")>>), A(<<S(">>")>>), A(<<S("<<")>>), A(<<S(">>>")>>),
               A(<<S("<<<")>>), A(<<S("==?")>>), A(<<S("!=?")>>), A(<<S("->")>>), A(<<S("<->")>>) >>,
  unop |-> << A(<<S("!")>>), A(<<S("~")>>), A(<<S("-")>>), A(<<S("+")>>), A(<<S("&")>>), A(<<S("~&")>>), A(<<S("|")>>), A(<<S("~|")>>),
              A(<<S("^")>>), A(<<S("~^")>>), A(<<S("^~")>>) >>,

  \* ---- instantiation ----
  inst |-> << AT(<<I, N("hinst"), S(";")>>, "ModuleInstantiation"),
              AT(<<I, S("#"), S("("), N("named_param"), S(")"), N("hinst"), S(";")>>, "ModuleInstantiation"),
              AT(<<I, S("#"), S("("), N("const_expr"), S(","), N("const_expr"), S(")"), N("hinst"), S(","), N("hinst"), S(";")>>, "ModuleInstantiation") >>,
  hinst |-> << AT(<<I, S("("), S(")")>>, "HierarchicalInstance"),
               AT(<<I, S("("), N("named_conn"), S(","), N("named_conn"), S(")")>>, "HierarchicalInstance"),
               AT(<<I, S("("), N("expr"), S(","), N("expr"), S(")")>>, "HierarchicalInstance"),
               AT(<<I, S("("), N("dotstar"), S(")")>>, "HierarchicalInstance") >>,
  dotstar |-> << AT(<<S(".*")>>, "NamedPortConnection") >>,
  named_conn |-> << AT(<<S("."), I, S("("), N("expr"), S(")")>>, "NamedPortConnection"), AT(<<S("."), I, S("("), S(")")>>, "NamedPortConnection"),
                    AT(<<S("."), I>>, "NamedPortConnection") >>,
  named_param |-> << AT(<<S("."), I, S("("), N("const_expr"), S(")")>>, "NamedParameterAssignment") >>,

  \* ---- generate ----
  generate_region |-> << AT(<<K("generate"), N("gen_items"), K("endgenerate")>>, "GenerateRegion") >>,
  gen_items |-> << A(<<>>), G(<<N("gen_item"), N("gen_items")>>) >>,
  gen_item |-> << A(<<N("net_decl")>>), A(<<N("var_decl")>>), G(<<N("cont_assign")>>), G(<<N("gen_if")>>), G(<<N("gen_for")>>), G(<<N("inst")>>) >>,
  gen_if |-> << AT(<<K("if"), S("("), N("const_expr"), S(")"), N("gen_block")>>, "IfGenerateConstruct"),
                AT(<<K("if"), S("("), N("const_expr"), S(")"), N("gen_block"), K("else"), N("gen_block")>>, "IfGenerateConstruct") >>,
  gen_for |-> << AT(<<K("for"), S("("), K("genvar"), N("ident"), S("="), L("DecimalNumber"), S(";"), N("ident"), S("<"), L("DecimalNumber"), S(";"),
                      N("ident"), S("="), N("ident"), S("+"), L("DecimalNumber"), S(")"), N("gen_block")>>, "LoopGenerateConstruct") >>,
  gen_case |-> << AT(<<K("case"), S("("), N("const_expr"), S(")"), L("DecimalNumber"), S(":"), N("gen_block"), K("default"), S(":"), N("gen_block"), K("endcase")>>, "CaseGenerateConstruct") >>,
  gen_block |-> << A(<<N("net_decl")>>), G(<<K("begin"), S(":"), N("ident"), N("gen_items"), K("end")>>), G(<<K("begin"), N("gen_items"), K("end")>>) >>,

  \* ---- subroutines ----
  function_decl |-> << AT(<<K("function"), K("int"), I, S("("), N("tf_ports"), S(")"), S(";"), N("fstmts"), K("endfunction")>>, "FunctionDeclaration"),
                       AT(<<K("function"), K("automatic"), K("logic")>> \o Rng \o <<I, S("("), N("tf_ports"), S(")"), S(";"), N("fstmts"), K("endfunction")>>, "FunctionDeclaration"),
                       AT(<<K("function"), K("void"), I, S("("), S(")"), S(";"), N("fstmts"), K("endfunction")>>, "FunctionDeclaration") >>,
  full_sub |-> << AT(<<K("function"), K("automatic"), K("int"), I, S("("), N("tf_ports"), S(")"), S(";"), N("var_decl"), N("fstmts"), K("endfunction"), S(":"), N("ident")>>, "FunctionDeclaration"),
                  AT(<<K("function"), K("static"), K("void"), I, S(";"), K("input"), K("int"), N("ident"), S(";"), N("var_decl"), N("fstmts"), K("endfunction"), S(":"), N("ident")>>, "FunctionDeclaration"),
                  AT(<<K("task"), K("automatic"), I, S("("), N("tf_ports"), S(")"), S(";"), N("var_decl"), N("fstmts"), K("endtask"), S(":"), N("ident")>>, "TaskDeclaration"),
                  AT(<<K("task"), K("static"), I, S(";"), K("input"), K("int"), N("ident"), S(";"), N("var_decl"), N("fstmts"), K("endtask"), S(":"), N("ident")>>, "TaskDeclaration") >>,
  task_decl |-> << AT(<<K("task"), I, S(";"), N("fstmts"), K("endtask")>>, "TaskDeclaration"),
                   AT(<<K("task"), K("automatic"), I, S("("), N("tf_ports"), S(")"), S(";"), N("fstmts"), K("endtask")>>, "TaskDeclaration") >>,
  tf_ports |-> << A(<<K("input"), K("int"), N("ident")>>), A(<<K("input"), K("int"), N("ident"), S(","), K("output"), K("logic"), N("range"), N("ident")>>) >>,
  fstmts |-> << A(<<>>), G(<<N("fstmt"), N("fstmts")>>) >>,
  fstmt |-> << A(<<K("return"), N("expr"), S(";")>>), A(<<N("nonblocking")>>), G(<<N("if_stmt")>>), A(<<N("systf_call")>>), G(<<N("seq_block")>>) >>,

  \* ---- other design elements ----
  interface_decl |-> << AT(<<K("interface"), I, N("opt_ansi_ports"), S(";"), N("if_items"), K("endinterface")>>, "InterfaceDeclarationAnsi") >>,
  if_items |-> << A(<<>>), G(<<N("if_item"), N("if_items")>>) >>,
  if_item |-> << A(<<N("var_decl")>>), A(<<N("modport")>>), A(<<N("net_decl")>>) >>,
  modport |-> << AT(<<K("modport"), I, S("("), K("input"), N("ident"), S(","), K("output"), N("ident"), S(")"), S(";")>>, "ModportItem") >>,
  program_decl |-> << AT(<<K("program"), I, S(";"), N("prog_items"), K("endprogram")>>, "ProgramDeclarationAnsi") >>,
  prog_items |-> << A(<<>>), G(<<N("initial"), N("prog_items")>>), G(<<N("var_decl"), N("prog_items")>>) >>,
  package_decl |-> << AT(<<K("package"), I, S(";"), N("pkg_items"), K("endpackage")>>, "PackageDeclaration") >>,
  pkg_items |-> << A(<<>>), G(<<N("pkg_item"), N("pkg_items")>>) >>,
  pkg_item |-> << A(<<N("param_stmt")>>), A(<<N("typedef_decl")>>), G(<<N("function_decl")>>), A(<<N("var_decl")>>) >>,
  class_decl |-> << AT(<<K("class"), I, S(";"), N("class_items"), K("endclass")>>, "ClassDeclaration"),
                    AT(<<K("class"), I, K("extends"), N("class_ref"), S(";"), N("class_items"), K("endclass")>>, "ClassDeclaration") >>,
  class_ref |-> << A(<<I>>) >>,
  class_items |-> << A(<<>>), G(<<N("class_item"), N("class_items")>>) >>,
  class_item |-> << A(<<N("var_decl")>>), G(<<N("function_decl")>>), G(<<N("task_decl")>>),
                    A(<<K("function"), K("new"), S("("), S(")"), S(";"), K("endfunction")>>),
                    A(<<K("local"), N("var_decl")>>), A(<<K("rand"), N("var_decl")>>) >>
]

NTs == DOMAIN Prod
\* the node kinds whose every occurrence in a tree is accounted for by the grammar
Tracked == ((UNION {{Prod[nt][k].node : k \in 1..Len(Prod[nt])} : nt \in NTs}) \ {""}) \cup DOMAIN LitTexts

-----------------------------------------------------------------------------
(* the derivation machine *)

\* state: [form, toks, expect, budget, ids, lits]
\*   toks   : sequence of [t, r]    (terminal text and role kw/sym/id/lit)
\*   expect : sequence of <<node, identifier text>>
DInit(start, budget) == [form |-> <<N(start)>>, toks |-> <<>>, expect |-> <<>>, budget |-> budget, ids |-> 0, lits |-> 0]

\* move terminals at the front of the form to toks (identifier slots and literals get their texts)
RECURSIVE Shift(_)
Shift(d) ==
  IF d.form = <<>> \/ Head(d.form).t = "nt" THEN d
  ELSE LET s == Head(d.form) IN
       IF s.t = "id" THEN Shift([d EXCEPT !.form = Tail(@), !.toks = Append(@, [t |-> IdText(d.ids + 1), r |-> "id"]), !.ids = @ + 1])
       ELSE IF s.t = "lit" THEN
            LET lt == LitTexts[s.v] IN
            Shift([d EXCEPT !.form = Tail(@), !.toks = Append(@, [t |-> lt[(d.lits % Len(lt)) + 1], r |-> "lit"]), !.lits = @ + 1,
                            !.expect = Append(@, <<s.v, "">>)])
       ELSE Shift([d EXCEPT !.form = Tail(@), !.toks = Append(@, [t |-> s.v, r |-> s.t])])

Complete(d) == d.form = <<>>
LeftNT(d) == Head(d.form).v
Allowed(d, a) == a.c = 0 \/ d.budget > 0

\* number of the first identifier slot's identifier if the alternative is expanded now: identifiers are
\* numbered in the order in which the slots reach the front of the form, i.e. in source order; the slot of
\* a tagged alternative is its first I symbol, which is preceded only by terminals and by non-terminals
\* that have to be expanded first - so the expectation is recorded with a placeholder and resolved when the
\* slot is shifted.  To keep the machine simple, tagged alternatives in this grammar have only terminals
\* (and no identifier slot) before their first I symbol, except through non-terminals listed in IdBefore.
FirstIdPos(rhs) == LET Sx == {i \in 1..Len(rhs) : rhs[i].t = "id"} IN IF Sx = {} THEN 0 ELSE CHOOSE i \in Sx : \A j \in Sx : i <= j
NtBefore(rhs, p) == {i \in 1..(p - 1) : rhs[i].t \in {"nt", "id"}}

\* Expand the leftmost non-terminal with alternative number k
Expand(d, k) ==
  LET a == Prod[LeftNT(d)][k]
      p == FirstIdPos(a.rhs)
      \* the tagged node's identifier is the next identifier to be numbered, provided nothing that can
      \* contain identifiers stands before the slot (checked by the ASSUME below)
      ex == IF a.node = "" THEN d.expect
            ELSE IF p = 0 THEN Append(d.expect, <<a.node, "">>)
            ELSE Append(d.expect, <<a.node, IdText(d.ids + 1)>>)
  IN Shift([d EXCEPT !.form = a.rhs \o Tail(@), !.expect = ex, !.budget = IF a.c = 1 THEN @ - 1 ELSE @])

\* grammar well-formedness needed by Expand's identifier numbering
TaggedIdFirst == \A nt \in NTs : \A k \in 1..Len(Prod[nt]) :
                   LET a == Prod[nt][k] p == FirstIdPos(a.rhs) IN (a.node # "" /\ p # 0) => NtBefore(a.rhs, p) = {}
HasTerminating == \A nt \in NTs : \E k \in 1..Len(Prod[nt]) : Prod[nt][k].c = 0
NTsDefined == \A nt \in NTs : \A k \in 1..Len(Prod[nt]) : \A i \in 1..Len(Prod[nt][k].rhs) :
                 Prod[nt][k].rhs[i].t = "nt" => Prod[nt][k].rhs[i].v \in NTs

\* replay of a recorded choice sequence (leftmost derivation)
RECURSIVE Derive(_, _, _)
Derive(d, choices, i) ==
  IF Complete(d) THEN [ok |-> i > Len(choices), d |-> d]
  ELSE IF i > Len(choices) THEN [ok |-> FALSE, d |-> d]
  ELSE LET k == choices[i] IN
       IF k < 1 \/ k > Len(Prod[LeftNT(d)]) \/ ~Allowed(d, Prod[LeftNT(d)][k]) THEN [ok |-> FALSE, d |-> d]
       ELSE Derive(Expand(d, k), choices, i + 1)
=============================================================================
