----------------------------- MODULE MC_Origins -----------------------------
(* Model checking of the origin map: every sequence of pushes (lengths from Lens, with and   *)
(* without origin) into an outer text, with a nested text that is built the same way and     *)
(* merged once (the `include case).  LookupAgrees: the B-tree lookup with the overlapping-    *)
(* ranges ordering returns, for every byte, the segment the byte was appended with.          *)
EXTENDS Origins
CONSTANTS MaxPush, Lens, SkipEmpty
VARIABLES outer, inner, innerOpen, merged, n
vars == <<outer, inner, innerOpen, merged, n>>
Init == outer = EmptyText /\ inner = EmptyText /\ innerOpen = FALSE /\ merged = FALSE /\ n = 0
DoPush(len, has) ==
  /\ n < MaxPush
  /\ n' = n + 1
  /\ IF innerOpen
       THEN inner' = Push(inner, len, has, "inc", 100 * (n + 1), SkipEmpty) /\ UNCHANGED outer
       ELSE outer' = Push(outer, len, has, "top", 100 * (n + 1), SkipEmpty) /\ UNCHANGED inner
  /\ UNCHANGED <<innerOpen, merged>>
OpenInner == ~innerOpen /\ ~merged /\ innerOpen' = TRUE /\ UNCHANGED <<outer, inner, merged, n>>
DoMerge == innerOpen /\ outer' = Merge(outer, inner) /\ innerOpen' = FALSE /\ merged' = TRUE /\ UNCHANGED <<inner, n>>
Next == (\E l \in Lens, h \in BOOLEAN : DoPush(l, h)) \/ OpenInner \/ DoMerge
Spec == Init /\ [][Next]_vars
LookupAgrees == LookupAgreesOn(outer) /\ LookupAgreesOn(inner)
\* keys stay sorted and disjoint (what makes the linear scan equal to the B-tree search)
KeysSorted == \A i \in 1..(Len(outer.map) - 1) : outer.map[i].ke <= outer.map[i + 1].kb
=============================================================================
