---------------------------- MODULE Packrat_Trace ----------------------------
(* Trace validation for C17: one record = one input parsed under several memo capacities (0 = unbounded,   *)
(* the first run): acceptance and the tree fingerprint must not depend on the capacity.                   *)
EXTENDS Naturals, Sequences, FiniteSets, TLC, Json, IOUtils
Rec == ndJsonDeserialize(IOEnv.TRACE)
Judge(r) ==
  LET ref == r.runs[1]
      diff == {i \in 2..Len(r.runs) : r.runs[i].outcome # ref.outcome \/ r.runs[i].fp # ref.fp}     \* acceptance and tree; the position of an error is not part of C17
      typed == {i \in 1..Len(r.runs) : r.runs[i].outcome \notin {"ok", "err"}}
  IN (IF typed # {} THEN <<"outcome is not Ok or a structured Error", ToString(r.runs[CHOOSE i \in typed : TRUE].cap)>> ELSE <<>>)
     \o (IF diff # {} THEN LET i == CHOOSE i \in diff : TRUE
                           IN <<"result depends on the memo capacity", "capacity", ToString(r.runs[i].cap), ref.outcome, r.runs[i].outcome,
                                "begin_keywords pushes", ToString(ref.kwpush), ToString(r.runs[i].kwpush)>> ELSE <<>>)
VARIABLES l, nbad
Init == l = 1 /\ nbad = 0
Next ==
  /\ l <= Len(Rec)
  /\ LET r == Rec[l]
         v == Judge(r)
     IN /\ IF v = <<>> THEN nbad' = nbad
           ELSE /\ PrintT("BAD|" \o r.id \o "|" \o ToString(v))
                /\ nbad' = nbad + 1
        /\ l' = l + 1
        /\ (l = Len(Rec) => PrintT("SUMMARY|" \o ToString(l) \o "|" \o ToString(nbad')))
Spec == Init /\ [][Next]_<<l, nbad>>
=============================================================================
