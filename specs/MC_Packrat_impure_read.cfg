SPECIFICATION Spec
CONSTANTS
  Family = "impure_read"
  MaxLen = 3
  Caps <- CapsAll
INVARIANT TransparentInv
CHECK_DEADLOCK FALSE
