SPECIFICATION Spec
CONSTANTS
  Inputs <- AllInputs
  HistLen = 1
  Cap = 0
  Unpaired <- UsageUnpaired
  Resets <- AllResets
INVARIANT DirectiveNeutral
CHECK_DEADLOCK FALSE
