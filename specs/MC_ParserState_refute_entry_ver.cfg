SPECIFICATION Spec
CONSTANTS
  Inputs <- AllInputs
  HistLen = 2
  Cap = 0
  Unpaired <- NoUnpaired
  Resets <- NoVerReset
INVARIANT ScopeAgrees
CHECK_DEADLOCK FALSE
