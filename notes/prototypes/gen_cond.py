import json, sys, itertools, re
MAXLEN=int(sys.argv[1]); 
PLAIN=[("tok",None),("define","A"),("define","B"),("undef","A"),("undef","B"),("undefall",None),("use","A"),("use","B")]
IFS=[(k,n) for k in ("ifdef","ifndef") for n in ("A","B","__LINE__")]
ELSIFS=[("elsif",n) for n in ("A","B","__LINE__")]
def gen(prog, cs):
    if not cs and prog: yield list(prog)
    if len(prog)>=MAXLEN: return
    for it in PLAIN:
        prog.append(it); yield from gen(prog, cs); prog.pop()
    if len(cs)<2:
        for it in IFS:
            prog.append(it); cs.append(False); yield from gen(prog, cs); cs.pop(); prog.pop()
    if cs:
        if not cs[-1]:
            for it in ELSIFS:
                prog.append(it); yield from gen(prog, cs); prog.pop()
            prog.append(("else",None)); cs[-1]=True; yield from gen(prog, cs); cs[-1]=False; prog.pop()
        prog.append(("endif",None)); top=cs.pop(); yield from gen(prog, cs); cs.append(top); prog.pop()
def render(prog):
    lines=[]
    for i,(k,n) in enumerate(prog):
        if k=="tok": lines.append("t%03d"%i)
        elif k=="define": lines.append("`define %s v%s%03d"%(n,n,i))
        elif k=="undef": lines.append("`undef %s"%n)
        elif k=="undefall": lines.append("`undefineall")
        elif k=="use": lines.append("`%s"%n)
        elif k in("ifdef","ifndef","elsif"): lines.append("`%s %s"%(k,n))
        else: lines.append("`"+k)
    return "\n".join(lines)+"\n"
TABLES=[[],[{"name":"A","body":None}],[{"name":"A","body":"pA"},{"name":"B","body":"pB"}]]
n=0
with open("cases.ndjson","w") as f:
    for prog in gen([],[]):
        for ti,tab in enumerate(TABLES):
            f.write(json.dumps({"id":n,"prog":prog,"tab":ti,"text":render(prog),"predef":tab})+"\n"); n+=1
print(n)
