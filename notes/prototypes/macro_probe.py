import json, sys, itertools, re
# ---------- universe ----------
FORMALS=[[],[("a",None)],[("a",None),("b",None)],[("a","d0")],[("a",None),("b","d0")]]
BT={ "plus":("lit","+"), "a":("id","a"), "b":("id","b"), "z":("id","z"), "paste":("paste",), "qa":("bq","a"), "sa":("str","a"), "useN":("use","N"), "ax":("id","ax"), "a$":("id","a$y") }
BKEYS=list(BT)
ARGS=[None, [], [["x"]], [["x"],["y"]], [None,["y"]], [["x"],None], [["(","p",",","q",")"]], [['"s,t"']], [["`N"]], [["x"],["[","1",",","2","]"]]]
def render_body(body):
    s=""
    for i,k in enumerate(body):
        t=BT[k]
        piece = {"lit":lambda:t[1], "id":lambda:t[1], "paste":lambda:"``", "bq":lambda:'`"%s`"'%t[1], "str":lambda:'"%s"'%t[1], "use":lambda:"`"+t[1]}[t[0]]()
        prev = BT[body[i-1]][0] if i>0 else None
        glue = (t[0]=="paste") or (prev=="paste")
        s += ("" if (i==0 or glue) else " ") + piece
    return s
def render(formals, body, args):
    f = "" if not formals else "("+", ".join(n if d is None else "%s=%s"%(n,d) for n,d in formals)+")"
    u = "`M"
    if args is not None:
        u += "(" + ",".join("" if a is None else " ".join(a).replace("( ","(").replace(" )",")").replace(" ,",",").replace("[ ","[").replace(" ]","]") for a in args) + ")"
    return "`define N n0\n`define M%s %s\nL %s R\n" % (f, render_body(body), u)
# ---------- reference ----------
def tokenize(s):
    toks=[]; i=0
    while i<len(s):
        c=s[i]
        if c.isspace(): i+=1; continue
        if c=='"':
            j=i+1
            while j<len(s) and s[j]!='"':
                j+= 2 if s[j]=="\\" else 1
            toks.append(s[i:j+1]); i=j+1; continue
        if re.match(r'[A-Za-z0-9_$]', c):
            j=i
            while j<len(s) and re.match(r'[A-Za-z0-9_$]', s[j]): j+=1
            toks.append(s[i:j]); i=j; continue
        toks.append(c); i+=1
    return toks
def expand_ref(formals, body, args):
    """returns ('ok', toks) or ('err', msg). defs: N -> n0"""
    if formals and args is None: return ("err",'DefineNoArgs("M")')
    env={}
    acts = args if args is not None else []
    if args == []: acts = [None]
    for i,(n,d) in enumerate(formals):
        if i < len(acts):
            a=acts[i]
            if a is not None: env[n]=list(a)
            else: env[n]=[d] if d is not None else []
        else:
            if d is not None: env[n]=[d]
            else: return ("err",'DefineArgNotFound("%s")'%n)
    def ex_atoks(ts):  # actual tokens may contain `N
        out=[]
        for t in ts:
            if t=="`N": out.append("n0")
            else: out+=tokenize(t)
        return out
    seq=[]  # list of ('t',text) or ('paste',)
    for k in body:
        t=BT[k]
        if t[0]=="lit": seq.append(("t",[t[1]]))
        elif t[0]=="id":
            if t[1] in env: seq.append(("t",ex_atoks(env[t[1]])))
            else: seq.append(("t",[t[1]]))
        elif t[0]=="paste": seq.append(("paste",))
        elif t[0]=="bq":
            inner = ex_atoks(env[t[1]]) if t[1] in env else [t[1]]
            seq.append(("q",inner))
        elif t[0]=="str": seq.append(("t",['"%s"'%t[1]]))
        elif t[0]=="use": seq.append(("t",["n0"]))
    # paste gluing on token level: last token of left glued with first token of right
    out=[]
    glue=False
    for e in seq:
        if e[0]=="paste": glue=True; continue
        ts = e[1] if e[0]=="t" else None
        if e[0]=="q":
            ts=['"'+" ".join(e[1])+'"']   # content compared loosely below
        ts=list(ts)
        if glue and out and ts and re.match(r'^[A-Za-z0-9_$]+$', out[-1]) and re.match(r'^[A-Za-z0-9_$]+$', ts[0]):
            out[-1]=out[-1]+ts[0]; ts=ts[1:]
        glue=False
        out+=ts
    if not formals and args is not None:
        out.append("(")
        for i,a in enumerate(args):
            if i: out.append(",")
            if a is not None: out+=ex_atoks(a)
        out.append(")")
    return ("ok",out)
def norm(toks):  # strings: drop inner blanks for loose comparison
    return [re.sub(r'\s+','',t) if t.startswith('"') else t for t in toks]
if sys.argv[1]=="gen":
    k=0
    with open("cases.ndjson","w") as f:
        for fi,formals in enumerate(FORMALS):
            for L in range(0,4):
                for body in itertools.product(BKEYS, repeat=L):
                    # skip bodies mentioning b when irrelevant? keep all; skip paste at ends / double paste
                    if any(body[i]=="paste" and (i==0 or i==L-1 or body[i-1]=="paste") for i in range(L)): continue
                    if any(body[i]=="paste" and (BT[body[i-1]][0] not in ("id","lit") or BT[body[i+1]][0] not in ("id","lit") or body[i-1]=="plus" or body[i+1]=="plus") for i in range(L)): continue
                    for ai,args in enumerate(ARGS):
                        if args is not None and formals and len(args)>len(formals): continue
                        if args is not None and not formals and len(args)>1 and False: continue
                        f.write(json.dumps({"id":k,"fi":fi,"body":body,"ai":ai,"text":render(formals,list(body),args)})+"\n"); k+=1
    print(k)
else:
    cases={}
    for l in open("cases.ndjson"):
        c=json.loads(l); cases[c["id"]]=c
    n=0;bad=0;ex={}
    for l in open("results.ndjson"):
        r=json.loads(l); c=cases[r["id"]]; n+=1
        formals=FORMALS[c["fi"]]; args=ARGS[c["ai"]]
        e=expand_ref(formals, c["body"], args)
        if r["ok"]:
            last=r["out"].split("\n")[2] if len(r["out"].split("\n"))>2 else ""
            body_lines="\n".join(r["out"].split("\n")[2:])
            g=tokenize(body_lines)
            got=("ok",norm(g))
        else: got=("err",r["err"])
        exp = ("ok",norm(["L"]+e[1]+["R"])) if e[0]=="ok" else e
        b=c["body"]
        strargs = args is not None and any(a is not None and (a[0].startswith('"') or a[0]=="`N") for a in args)
        d2 = any(b[i] in ("sa","qa") and b[i+1]=="useN" for i in range(len(b)-1))
        d2 = d2 or (strargs and any(b[i] in ("a","b") and b[i+1]=="useN" for i in range(len(b)-1)))
        if d2: continue
        if "a$" in b: continue            # D9 family
        if "qa" in b and strargs: continue  # stringified string / embedded usage: separate question
        if got!=exp:
            bad+=1
            key=(c["fi"],c["ai"], tuple(x for x in c["body"] if x in ("a$","qa","paste")))
            if key not in ex: ex[key]=(c["text"],exp,got)
    print("cases",n,"mismatches",bad,"distinct classes",len(ex))
    for k,v in list(ex.items())[:14]: print(k, repr(v)[:420])
