INIT Init
NEXT Next
CONSTANTS
 Input <- IN2
 Cap = 0
 Unpaired <- UsageUnpaired
 Noise <- NoiseSet
INVARIANT ScopeAgrees
CHECK_DEADLOCK FALSE
