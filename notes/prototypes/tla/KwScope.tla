---- MODULE KwScope ----
\* Design prototype: thread-local version stack + packrat memo under backtracking (ParserState/KeywordScope).
\* slot = [tok |-> "t" | "id_old" (a word reserved only in NEW), triv |-> Seq of {"kw_old","endkw","resetall","sp"}]
EXTENDS Naturals, Sequences, FiniteSets, TLC
CONSTANTS Input, Cap, Unpaired, Noise   \* Cap = 0 means unbounded
VARIABLES pc, ver, memo, keys, log, idres
N == Len(Input)
RECURSIVE RefStack(_, _, _)
RefStack(i, j, st) ==
  IF j >= i THEN st ELSE
  LET tr == Input[j].triv
      F[k \in 0..Len(tr)] == IF k = 0 THEN st ELSE
            IF tr[k] = "kw_old" THEN Append(F[k-1], "OLD")
            ELSE IF tr[k] = "endkw" /\ F[k-1] # <<>> THEN SubSeq(F[k-1], 1, Len(F[k-1]) - 1)
            ELSE F[k-1]
  IN RefStack(i, j + 1, F[Len(tr)])
InForce(i) == LET s == RefStack(i, 1, <<>>) IN IF s = <<>> THEN "NEW" ELSE s[Len(s)]
Top == IF ver = <<>> THEN "NEW" ELSE ver[Len(ver)]
Ins(k) == IF Cap = 0 THEN /\ memo' = memo \cup {k} /\ keys' = Append(keys, k)
          ELSE IF Len(keys) > Cap - 1
               THEN /\ keys' = Append(Tail(keys), k) /\ memo' = (memo \ {Head(keys)}) \cup {k}
               ELSE /\ keys' = Append(keys, k) /\ memo' = memo \cup {k}
Init == /\ pc = [alt |-> 1, slot |-> 1, tix |-> 0, fail |-> 0] /\ ver = <<>> /\ memo = {} /\ keys = <<>> /\ log = <<>>
        /\ idres = [i \in 1..N |-> "none"]
Done == pc.alt = 3
ChooseFail == /\ pc.alt = 1 /\ pc.slot = 1 /\ pc.tix = 0 /\ pc.fail = 0
              /\ \E f \in 1..N : pc' = [pc EXCEPT !.fail = f]
              /\ UNCHANGED <<ver, memo, keys, log, idres>>
Tok == /\ pc.alt \in {1, 2} /\ (pc.alt = 2 \/ pc.fail > 0) /\ pc.slot <= N /\ pc.tix = 0
       /\ IF Input[pc.slot].tok # "id_old" THEN UNCHANGED <<log, memo, keys, idres>>
          ELSE IF <<"id", pc.slot, 0>> \in memo
               THEN /\ log' = Append(log, <<pc.slot, idres[pc.slot]>>) /\ UNCHANGED <<memo, keys, idres>>
               ELSE /\ log' = Append(log, <<pc.slot, Top>>) /\ Ins(<<"id", pc.slot, 0>>) /\ idres' = [idres EXCEPT ![pc.slot] = Top]
       /\ pc' = [pc EXCEPT !.tix = 1]
       /\ UNCHANGED ver
Triv == /\ pc.alt \in {1, 2} /\ pc.slot <= N /\ pc.tix >= 1 /\ pc.tix <= Len(Input[pc.slot].triv)
        /\ LET k == <<"ws", pc.slot, pc.tix>>  e == Input[pc.slot].triv[pc.tix] IN
           IF k \in memo THEN UNCHANGED <<ver, memo, keys>>      \* memo hit: side effect skipped
           ELSE /\ Ins(k)
                /\ ver' = IF e = "kw_old" THEN Append(ver, "OLD")
                          ELSE IF e = "endkw" THEN (IF ver = <<>> THEN ver ELSE SubSeq(ver, 1, Len(ver) - 1))
                          ELSE IF e = "resetall" /\ "usage" \in Unpaired THEN Append(ver, "DIR")
                          ELSE ver
        /\ pc' = [pc EXCEPT !.tix = pc.tix + 1]
        /\ UNCHANGED <<log, idres>>
NoiseStep == /\ pc.alt \in {1,2} /\ pc.slot <= N /\ pc.tix = Len(Input[pc.slot].triv) + 1
             /\ \E n \in Noise :
                  /\ IF n = 0 THEN UNCHANGED <<memo, keys>>
                     ELSE Ins(<<"noise", pc.alt, pc.slot>>)
                  /\ pc' = IF pc.alt = 1 /\ pc.slot = pc.fail THEN [alt |-> 2, slot |-> 1, tix |-> 0, fail |-> pc.fail]
                           ELSE IF pc.slot = N THEN [pc EXCEPT !.alt = 3] ELSE [pc EXCEPT !.slot = pc.slot + 1, !.tix = 0]
             /\ UNCHANGED <<ver, log, idres>>
Next == ChooseFail \/ Tok \/ Triv \/ NoiseStep
ScopeAgrees == Done => \A i \in 1..Len(log) : LET s == log[i][1] IN
                  (\A j \in (i+1)..Len(log) : log[j][1] # s) => log[i][2] = InForce(s)
IN1 == <<[tok |-> "t", triv |-> <<"kw_old">>], [tok |-> "id_old", triv |-> <<"endkw">>], [tok |-> "id_old", triv |-> <<>>]>>
IN2 == <<[tok |-> "t", triv |-> <<"resetall">>], [tok |-> "id_old", triv |-> <<>>]>>
NoiseSet == {0, 1}
NoUnpaired == {}
UsageUnpaired == {"usage"}
====
