INIT Init
NEXT Next
CONSTANTS MaxPush = 6
 Lens = {1,2,3}
INVARIANT LookupAgrees
CHECK_DEADLOCK FALSE
