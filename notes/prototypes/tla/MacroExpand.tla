---- MODULE MacroExpand ----
\* Design prototype: IEEE 22.5.1 expansion operators (bind, substitute, paste, rescan) on token records.
\* Body tokens: [k|->"lit",t] [k|->"id",t] [k|->"paste"] [k|->"str",t] [k|->"use",n,args]
\*   args: <<>> = no argument list, <<list>> = list whose elements are <<>> (empty actual) or <<Seq(tok)>>
\* defs: name -> [formals: Seq([n, d: Opt(Seq(tok))]), body: Opt(Seq(tok))]   (Opt = <<>> | <<v>>)
\* NOTE: evaluate deep recursion inside an action (worker thread, JAVA_TOOL_OPTIONS=-Xss1g), never in ASSUME.
EXTENDS Naturals, Sequences, FiniteSets, TLC
Limit == 64
Err(e) == [ok |-> FALSE, err |-> e, toks |-> <<>>]
Ok(t) == [ok |-> TRUE, err |-> <<>>, toks |-> t]
RECURSIVE Bind(_, _, _, _), Subst(_, _), Rescan(_, _, _), Expand(_, _, _), Glue(_)
FormalIdx(fs, name) == LET S == {i \in 1..Len(fs) : fs[i].n = name} IN IF S = {} THEN 0 ELSE CHOOSE i \in S : TRUE
Bind(fs, acts, i, acc) ==
  IF i > Len(fs) THEN [ok |-> TRUE, err |-> <<>>, m |-> acc]
  ELSE LET f == fs[i] IN
       IF i <= Len(acts) THEN
            IF acts[i] # <<>> THEN Bind(fs, acts, i+1, Append(acc, acts[i][1]))
            ELSE Bind(fs, acts, i+1, Append(acc, IF f.d # <<>> THEN f.d[1] ELSE <<>>))
       ELSE IF f.d # <<>> THEN Bind(fs, acts, i+1, Append(acc, f.d[1]))
            ELSE [ok |-> FALSE, err |-> <<"DefineArgNotFound", f.n>>, m |-> <<>>]
Subst(body, env) ==
  IF body = <<>> THEN <<>> ELSE
  LET h == Head(body) r == Subst(Tail(body), env) IN
  IF h.k = "id" /\ FormalIdx(env.fs, h.t) # 0 THEN env.m[FormalIdx(env.fs, h.t)] \o r
  ELSE IF h.k = "use" THEN <<[h EXCEPT !.args = IF h.args = <<>> THEN <<>> ELSE << [i \in 1..Len(h.args[1]) |-> IF h.args[1][i] = <<>> THEN <<>> ELSE <<Subst(h.args[1][i][1], env)>>] >>]>> \o r
  ELSE <<h>> \o r
Glue(ts) ==
  IF Len(ts) >= 3 /\ ts[2].k = "paste" /\ ts[1].k \in {"lit","id"} /\ ts[3].k \in {"lit","id"}
     THEN Glue(<<[k |-> "id", t |-> ts[1].t \o ts[3].t]>> \o SubSeq(ts, 4, Len(ts)))
  ELSE IF ts = <<>> THEN <<>>
  ELSE IF ts[1].k = "paste" THEN Glue(Tail(ts))
  ELSE <<ts[1]>> \o Glue(Tail(ts))
Rescan(ts, defs, depth) ==
  IF ts = <<>> THEN Ok(<<>>) ELSE
  LET h == Head(ts) IN
  IF h.k = "use" THEN
       LET e == Expand(h, defs, depth + 1) IN
       IF ~e.ok THEN e ELSE LET r == Rescan(Tail(ts), defs, depth) IN IF ~r.ok THEN r ELSE Ok(e.toks \o r.toks)
  ELSE LET r == Rescan(Tail(ts), defs, depth) IN IF ~r.ok THEN r ELSE Ok(<<h>> \o r.toks)
Expand(u, defs, depth) ==
  IF depth > Limit THEN Err(<<"ExceedRecursiveLimit">>)
  ELSE IF u.n \notin DOMAIN defs THEN Err(<<"DefineNotFound", u.n>>)
  ELSE LET d == defs[u.n] IN
       IF d.formals # <<>> /\ u.args = <<>> THEN Err(<<"DefineNoArgs", u.n>>)
       ELSE LET b == Bind(d.formals, IF u.args = <<>> THEN <<>> ELSE u.args[1], 1, <<>>) IN
            IF ~b.ok THEN Err(b.err)
            ELSE IF d.body = <<>> THEN Ok(<<>>)
            ELSE Rescan(Glue(Subst(d.body[1], [fs |-> d.formals, m |-> b.m])), defs, depth)
L(t) == [k |-> "lit", t |-> t]
I(t) == [k |-> "id", t |-> t]
P == [k |-> "paste"]
U(n, a) == [k |-> "use", n |-> n, args |-> a]
Defs == [ M |-> [formals |-> <<[n |-> "a", d |-> <<>>], [n |-> "b", d |-> << <<L("2")>> >>]>>, body |-> << <<I("a"), L("+"), I("b"), I("x"), P, I("a"), [k |-> "str", t |-> "a"]>> >>],
          O |-> [formals |-> <<[n |-> "y", d |-> <<>>]>>, body |-> << <<U("I", << << << <<I("y")>> >> >> >>), I("y")>> >>],
          I |-> [formals |-> <<[n |-> "z", d |-> <<>>]>>, body |-> << <<L("<"), I("z"), L(">")>> >>],
          R |-> [formals |-> <<>>, body |-> << <<U("R", <<>>)>> >>],
          N |-> [formals |-> <<>>, body |-> <<>>] ]
Show(r) == IF r.ok THEN [i \in 1..Len(r.toks) |-> r.toks[i].t] ELSE r.err
VARIABLE x
Init == x = 0
Next == /\ x = 0 /\ x' = 1
        /\ PrintT(Show(Expand(U("M", << << << <<L("1")>> >> >> >>), Defs, 1)))        \* 1 + 2 x1 "a"
        /\ PrintT(Show(Expand(U("M", <<>>), Defs, 1)))                                \* DefineNoArgs M
        /\ PrintT(Show(Expand(U("O", << << << <<U("I", << << << <<L("k")>> >> >> >>)>> >> >> >>), Defs, 1)))   \* < < k > > < k >  (library prints "<<k>> <k>")
        /\ PrintT(Show(Expand(U("R", <<>>), Defs, 1)))                                \* ExceedRecursiveLimit (64 levels)
        /\ PrintT(Show(Expand(U("Q", <<>>), Defs, 1)))                                \* DefineNotFound Q
        /\ PrintT(Show(Expand(U("N", <<>>), Defs, 1)))                                \* <<>>
====
