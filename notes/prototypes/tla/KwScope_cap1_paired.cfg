INIT Init
NEXT Next
CONSTANTS
 Input <- IN1
 Cap = 1
 Unpaired <- NoUnpaired
 Noise <- NoiseSet
INVARIANT ScopeAgrees
CHECK_DEADLOCK FALSE
