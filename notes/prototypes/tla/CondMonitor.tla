---- MODULE CondMonitor ----
\* Design prototype: non-blocking trace monitor (one NDJSON record per case; bad cases collected, run never blocks).
\* run: TRACE=/path/trace.ndjson JAVA_TOOL_OPTIONS=-Xss1g tlc -workers 1 -noGenerateSpecTE CondMonitor.tla
\* record: {"id":n,"items":[{"k":"tok","t":"x"}|{"k":"ifdef","n":"A"}|...],"predef":["A"],"out":["x",...]}
EXTENDS Naturals, Sequences, FiniteSets, TLC, Json, IOUtils
Active(st) == \A i \in 1..Len(st.cs) : st.cs[i].cur
Step(st, it) ==
  CASE it.k = "tok"    -> IF Active(st) THEN [st EXCEPT !.out = Append(@, it.t)] ELSE st
    [] it.k = "define" -> IF Active(st) THEN [st EXCEPT !.defs = @ \cup {it.n}] ELSE st
    [] it.k = "undef"  -> IF Active(st) THEN [st EXCEPT !.defs = @ \ {it.n}] ELSE st
    [] it.k = "ifdef"  -> LET c == it.n \in st.defs IN [st EXCEPT !.cs = Append(@, [taken |-> c, cur |-> c])]
    [] it.k = "ifndef" -> LET c == it.n \notin st.defs IN [st EXCEPT !.cs = Append(@, [taken |-> c, cur |-> c])]
    [] it.k = "elsif"  -> LET f == st.cs[Len(st.cs)]
                              c == (~f.taken) /\ it.n \in st.defs
                          IN [st EXCEPT !.cs[Len(st.cs)] = [taken |-> f.taken \/ c, cur |-> c]]
    [] it.k = "else"   -> LET f == st.cs[Len(st.cs)] IN [st EXCEPT !.cs[Len(st.cs)] = [taken |-> TRUE, cur |-> ~f.taken]]
    [] it.k = "endif"  -> [st EXCEPT !.cs = SubSeq(@, 1, Len(@)-1)]
    [] OTHER -> st
RECURSIVE Run(_, _)
Run(st, items) == IF items = <<>> THEN st ELSE Run(Step(st, Head(items)), Tail(items))
Init0(defs) == [out |-> <<>>, defs |-> defs, cs |-> <<>>]
Rec == ndJsonDeserialize(IOEnv.TRACE)
VARIABLES l, bad
Init == l = 1 /\ bad = {}
Next == /\ l <= Len(Rec) /\ l' = l + 1
        /\ LET r == Rec[l]
               fin == Run(Init0({r.predef[i] : i \in 1..Len(r.predef)}), r.items)
               nb == IF fin.out = r.out THEN bad ELSE bad \cup {r.id}
           IN bad' = nb /\ TLCSet(1, <<l, nb>>)
Spec == Init /\ [][Next]_<<l, bad>>
Post == /\ PrintT(<<"CONSUMED", TLCGet(1)[1], "BAD", TLCGet(1)[2]>>)
        /\ TLCGet(1)[1] = Len(Rec)
====
