INIT Init
NEXT Next
CONSTANTS MaxPush = 5
 Lens = {0,1,2,3}
INVARIANT LookupAgrees
CHECK_DEADLOCK FALSE
