INIT Init
NEXT Next
CONSTANTS MaxLen = 3
 MaxDepth = 2
INVARIANT Export
CHECK_DEADLOCK FALSE
