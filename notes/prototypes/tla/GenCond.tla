---- MODULE GenCond ----
\* Design prototype: TLC as exhaustive generator (GEN): every complete well-nested program is printed once as JSON.
\* MaxLen=5, MaxDepth=2: 93 614 programs, 1.08 M states, 15 s single worker.
EXTENDS Naturals, Sequences, FiniteSets, TLC, Json
CONSTANTS MaxLen, MaxDepth
VARIABLES prog, cs, done
Plain == {[k |-> "tok"], [k |-> "define", n |-> "A"], [k |-> "define", n |-> "B"], [k |-> "undef", n |-> "A"], [k |-> "undef", n |-> "B"], [k |-> "undefall"], [k |-> "use", n |-> "A"], [k |-> "use", n |-> "B"]}
Ifs == {[k |-> kk, n |-> nn] : kk \in {"ifdef", "ifndef"}, nn \in {"A", "B", "__LINE__"}}
Elsifs == {[k |-> "elsif", n |-> nn] : nn \in {"A", "B", "__LINE__"}}
Init == prog = <<>> /\ cs = <<>> /\ done = FALSE
Add(it) == prog' = Append(prog, it) /\ UNCHANGED done
Next == /\ ~done
        /\ \/ /\ Len(prog) < MaxLen
              /\ \/ \E it \in Plain : Add(it) /\ UNCHANGED cs
                 \/ \E it \in Ifs : Len(cs) < MaxDepth /\ Add(it) /\ cs' = Append(cs, FALSE)
                 \/ \E it \in Elsifs : cs # <<>> /\ ~cs[Len(cs)] /\ Add(it) /\ UNCHANGED cs
                 \/ cs # <<>> /\ ~cs[Len(cs)] /\ Add([k |-> "else"]) /\ cs' = [cs EXCEPT ![Len(cs)] = TRUE]
                 \/ cs # <<>> /\ Add([k |-> "endif"]) /\ cs' = SubSeq(cs, 1, Len(cs)-1)
           \/ /\ cs = <<>> /\ prog # <<>> /\ done' = TRUE /\ UNCHANGED <<prog, cs>>
Export == done => PrintT(<<"REPLAY", ToJson(prog)>>)
====
