---- MODULE Origins ----
\* Design prototype: the origin map (BTreeMap<Range, Origin>) with range.rs's non-transitive ordering.
EXTENDS Naturals, Sequences, FiniteSets, TLC
CONSTANTS MaxPush, Lens
VARIABLES segs, map, total
REq(a, b) == IF a.b <= b.b THEN b.b < a.e ELSE a.b < b.e
RCmp(a, b) == IF REq(a, b) THEN "eq" ELSE IF a.b < b.b THEN "lt" ELSE IF a.b > b.b THEN "gt" ELSE "eq"
RECURSIVE FindIdx(_, _, _)
FindIdx(m, k, i) == IF i > Len(m) THEN <<"end", i>>
                    ELSE LET c == RCmp(k, m[i].k) IN
                         IF c = "gt" THEN FindIdx(m, k, i + 1) ELSE <<c, i>>
Insert(m, k, v) == LET r == FindIdx(m, k, 1) IN
   IF r[1] = "eq" THEN [m EXCEPT ![r[2]].v = v]           \* value replaced, OLD KEY KEPT (BTreeMap::insert)
   ELSE SubSeq(m, 1, r[2]-1) \o <<[k |-> k, v |-> v]>> \o SubSeq(m, r[2], Len(m))
Get(m, k) == LET r == FindIdx(m, k, 1) IN IF r[1] = "eq" THEN <<m[r[2]].v>> ELSE <<>>
ImplLookup(p) == LET g == Get(map, [b |-> p, e |-> p + 1]) IN
   IF g = <<>> THEN <<>> ELSE <<g[1].src, p - g[1].rb + g[1].ob>>
RECURSIVE SpecFind(_, _, _)
SpecFind(s, p, i) == IF i > Len(s) THEN <<>> ELSE IF s[i].start <= p /\ p < s[i].start + s[i].len THEN <<s[i].src, p - s[i].start + s[i].ob>> ELSE SpecFind(s, p, i+1)
Init == segs = <<>> /\ map = <<>> /\ total = 0
Push(len) == /\ Len(segs) < MaxPush
             /\ segs' = Append(segs, [start |-> total, len |-> len, src |-> Len(segs)+1, ob |-> 100 * (Len(segs)+1)])
             /\ map' = Insert(map, [b |-> total, e |-> total + len], [rb |-> total, src |-> Len(segs)+1, ob |-> 100 * (Len(segs)+1)])
             /\ total' = total + len
Next == \E l \in Lens : Push(l)
LookupAgrees == \A p \in 0..(total-1) : ImplLookup(p) = SpecFind(segs, p, 1)
====
