import json, sys, re
DEV=set(sys.argv[1].split(",")) if len(sys.argv)>1 and sys.argv[1] else set()
PRE={"__LINE__","__FILE__"}
def ref(prog, tab):
    defs={}  # name -> body or None
    for p in tab: defs[p["name"]]=p["body"]
    out=[]; cs=[]  # frame: dict(taken, cur, ifname, neg)
    def active(): return all(f["cur"] for f in cs)
    def defined(n): return n in defs or n in PRE
    for i,(k,n) in enumerate(prog):
        act=active()
        if k=="tok":
            if act: out.append("t%03d"%i)
        elif k=="define":
            if act and n not in PRE: defs[n]="v%s%03d"%(n,i)
        elif k=="undef":
            if act: defs.pop(n,None)
        elif k=="undefall":
            if act: defs.clear()
        elif k=="use":
            if act:
                if n not in defs: return ("err","DefineNotFound(\"%s\")"%n)
                if defs[n] is not None: out.append(defs[n])
        elif k in("ifdef","ifndef"):
            c=defined(n)==(k=="ifdef")
            cs.append({"taken":c,"cur":c,"ifname":n,"neg":k=="ifndef"})
        elif k=="elsif":
            f=cs[-1]
            d=defined(n)
            if (f["neg"] and "IfndefElsifTestsIfId" in DEV) or ((not f["neg"]) and "IfdefElsifTestsIfId" in DEV):
                d = (n in defs) or (f["ifname"] in PRE)
            c=(not f["taken"]) and d
            f["cur"]=c; f["taken"]=f["taken"] or c
        elif k=="else":
            f=cs[-1]; c=not f["taken"]; f["cur"]=c; f["taken"]=True
        elif k=="endif": cs.pop()
    dd=sorted("%s=%s"%(k,"" if v is None else v) for k,v in defs.items())
    return ("ok",out,dd)
def toks(text):
    # drop kept directive lines
    res=[]
    for line in text.split("\n"):
        s=line.strip()
        if s.startswith("`define") or s.startswith("`undef"): continue
        res+=s.split()
    return res
cases={}
for l in open("cases.ndjson"):
    c=json.loads(l); cases[c["id"]]=c
bad=0; n=0; ex=[]
for l in open("results.ndjson"):
    r=json.loads(l); c=cases[r["id"]]; n+=1
    e=ref([tuple(x) for x in c["prog"]], c["predef"])
    if r["ok"]:
        got=("ok",toks(r["out"]),[d.replace("=<none>","=") for d in r["defs"]])
    else: got=("err",r["err"])
    if got!=e:
        bad+=1
        if len(ex)<8: ex.append((c["text"],c["predef"],e,got))
print("cases",n,"mismatches",bad)
for x in ex: print(x)
