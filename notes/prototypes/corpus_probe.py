import re, json, sys, subprocess
s=open('/repo/sv-parser-parser/src/tests.rs').read()
pat=re.compile(r'test!\(\s*([a-z_0-9]+(?:\([a-z_0-9]+\))?)\s*,\s*(?:r(#+)"(.*?)"\2|"((?:[^"\\]|\\.)*)")\s*,\s*(Ok|Err)', re.S)
cases=[]
for m in pat.finditer(s):
    p=m.group(1); txt=m.group(3) if m.group(3) is not None else bytes(m.group(4),'utf8').decode('unicode_escape')
    if m.group(5)!="Ok": continue
    if p=="many1(module_item)" or p=="module_item": cases.append(("sv","module w__;\n"+txt+"\nendmodule\n"))
    elif p in("source_text","module_declaration"): cases.append(("sv",txt))
    elif p=="library_text": cases.append(("lib",txt))
import glob
for f in glob.glob('/repo/sv-parser/testcases/*.sv'): cases.append(("sv",open(f).read()))
with open("cases.ndjson","w") as f:
    k=0
    for kind,txt in cases:
        for inc in (False,True):
            f.write(json.dumps({"id":k,"mode":"parse","text":txt,"incomplete":inc,"lib":kind=="lib"})+"\n"); k+=1
print("corpus",len(cases),"cases",k)
