import json, itertools, sys
# universe
PRES=[(), ("cwd",), ("d1",), ("d2",), ("cwd","d1"), ("d1","d2"), ("cwd","d1","d2")]
INCS=[[],["d1"],["d2"],["d1","d2"],["d2","d1"]]
FORMS=["dq","angle","macro"]
PLACE=["own","tok_before","tok_after","comment_after","two"]
def fcontent(where): return "F%s `ifdef PRE sawpre `endif\n`define FROM_%s 1\n`undef KILL\n"%(where,where)
cases=[]; k=0
with open("cases.ndjson","w") as f:
    for pres in PRES:
        for incs in INCS:
            for form in FORMS:
                for place in PLACE:
                    for ign in (False,True):
                        if ign and form=="macro": continue
                        files={}
                        for w in pres: files[("" if w=="cwd" else w+"/")+"f.svh"]=fcontent(w)
                        inc={"dq":'`include "f.svh"',"angle":"`include <f.svh>","macro":"`include `FN"}[form]
                        line={"own":inc,"tok_before":"x "+inc,"tok_after":inc+" y","comment_after":inc+" // c","two":inc+" "+inc}[place]
                        top="`define PRE 1\n`define KILL 1\n`define FN \"f.svh\"\nbefore\n"+line+"\nafter `ifdef KILL killed `endif\n"
                        files["top.sv"]=top
                        for d in ("d1","d2"): files.setdefault(d+"/keep.txt","")
                        c={"id":k,"mode":"fs","files":files,"incs":incs,"ignore":ign,"pres":pres,"form":form,"place":place}
                        f.write(json.dumps(c)+"\n"); k+=1
print(k)
