import json, subprocess, sys, select, time, os
cases=[json.loads(l) for l in open(sys.argv[1])]
TO=float(sys.argv[3])
out=open(sys.argv[2],"w")
def start():
    return subprocess.Popen(["./target/fastdev/probe"], stdin=subprocess.PIPE, stdout=subprocess.PIPE, bufsize=0)
p=start(); nto=0
for c in cases:
    p.stdin.write((json.dumps(c)+"\n").encode()); p.stdin.flush()
    r,_,_=select.select([p.stdout],[],[],TO)
    if r:
        line=b""
        while not line.endswith(b"\n"):
            ch=p.stdout.read(65536)
            if not ch: break
            line+=ch
        out.write(line.decode())
    else:
        p.kill(); p.wait(); nto+=1
        out.write(json.dumps({"id":c["id"],"ok":None,"err":"TIMEOUT"})+"\n"); p=start()
p.stdin.close(); p.wait(); out.close(); print("timeouts",nto)
