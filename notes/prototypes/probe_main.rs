use std::collections::HashMap;
use std::io::{BufRead, Write};
use std::path::PathBuf;
use sv_parser::*;
use serde_json::{json, Value};
fn errs(e: &Error) -> String { format!("{:?}", e) }
fn defs_of(v: &Value) -> Defines {
    let mut d: Defines = HashMap::new();
    if let Some(arr) = v["predef"].as_array() { for p in arr { let n = p["name"].as_str().unwrap().to_string(); let b = p["body"].as_str().map(|b| Define::new(n.clone(), vec![], Some(DefineText::new(b.to_string(), None)))); d.insert(n, b); } }
    d
}
fn run(v: &Value) -> Value {
    let mode = v["mode"].as_str().unwrap_or("pp");
    let text = v["text"].as_str().unwrap_or("").to_string();
    let d = defs_of(v);
    match mode {
        "pp" => {
            let strip = v["strip"].as_bool().unwrap_or(false);
            let inc: Vec<PathBuf> = vec![];
            match preprocess_str(&text, "top.sv", &d, &inc, false, strip, 0, 0) {
                Ok((t, defs)) => { let mut names: Vec<String> = defs.iter().filter(|(k,_)| !k.starts_with("SV_COV_")).map(|(k,v)| match v { None => format!("{}=", k), Some(dd) => format!("{}={}", k, dd.text.as_ref().map(|t| t.text.trim().to_string()).unwrap_or("<none>".into())) }).collect(); names.sort();
                    let org: Vec<i64> = (0..t.text().len()).map(|i| t.origin(i).map(|(_,o)| o as i64).unwrap_or(-1)).collect();
                    json!({"id": v["id"], "ok": true, "out": t.text(), "defs": names, "org": org}) }
                Err(e) => json!({"id": v["id"], "ok": false, "err": errs(&e)}),
            }
        }
        "parse" => {
            let incomplete = v["incomplete"].as_bool().unwrap_or(false);
            let lib = v["lib"].as_bool().unwrap_or(false);
            let inc: Vec<PathBuf> = vec![];
            let r = if lib { parse_lib_str(&text, "top.sv", &d, &inc, false, incomplete) } else { parse_sv_str(&text, "top.sv", &d, &inc, false, incomplete) };
            match r {
                Ok((t, _)) => {
                    let mut leaves = vec![]; let mut idents = vec![]; let mut kinds: Vec<String> = vec![]; let mut skel = String::new(); let mut skip = 0usize; let mut enters = 0usize; let mut leaves_n = 0usize;
                    for ev in (&t).into_iter().event() { match ev {
                        NodeEvent::Enter(x) => { enters += 1;
                            if let RefNode::WhiteSpace(_) = x { skip += 1; }
                            match &x { RefNode::Locate(l) => { leaves.push(json!([l.offset, l.len, l.line])); if skip == 0 { skel.push_str(&format!("'{}' ", t.get_str(*l).unwrap())); } }
                                       RefNode::SimpleIdentifier(s) => { idents.push(t.get_str(&s.nodes.0).unwrap().to_string()); if skip == 0 { skel.push_str("SimpleIdentifier "); } }
                                       o => { if skip == 0 { let k = format!("{}", o); skel.push_str(&k); skel.push(' '); if v["kinds"].as_bool().unwrap_or(false) { kinds.push(k); } } } } }
                        NodeEvent::Leave(x) => { leaves_n += 1; if let RefNode::WhiteSpace(_) = x { skip -= 1; } } } }
                    let pptext: String = { // reconstruct text via get_str of the root
                        let mut s = String::new(); for n in &t { if let RefNode::Locate(l) = n { s.push_str(t.get_str(l).unwrap()); } } s };
                    let iter_n = (&t).into_iter().count();
                    json!({"id": v["id"], "ok": true, "leaves": leaves, "idents": idents, "skel": skel, "concat": pptext, "enters": enters, "leaves_ev": leaves_n, "iter_n": iter_n, "kinds": kinds})
                }
                Err(e) => json!({"id": v["id"], "ok": false, "err": errs(&e)}),
            }
        }
        "fs" => {
            let dir = PathBuf::from(format!("/var/tmp/svp-probe/work/c{}", v["id"]));
            let _ = std::fs::remove_dir_all(&dir); std::fs::create_dir_all(&dir).unwrap();
            for (p, c) in v["files"].as_object().unwrap() { let fp = dir.join(p); std::fs::create_dir_all(fp.parent().unwrap()).unwrap(); std::fs::write(fp, c.as_str().unwrap()).unwrap(); }
            std::env::set_current_dir(&dir).unwrap();
            let incs: Vec<PathBuf> = v["incs"].as_array().unwrap().iter().map(|x| PathBuf::from(x.as_str().unwrap())).collect();
            let ign = v["ignore"].as_bool().unwrap_or(false);
            let r = preprocess("top.sv", &d, &incs, false, ign);
            let j = match r {
                Ok((t, defs)) => { let mut names: Vec<String> = defs.keys().filter(|k| !k.starts_with("SV_COV_")).cloned().collect(); names.sort(); json!({"id": v["id"], "ok": true, "out": t.text(), "defs": names}) }
                Err(e) => json!({"id": v["id"], "ok": false, "err": errs(&e)}),
            };
            std::env::set_current_dir("/").unwrap(); let _ = std::fs::remove_dir_all(&dir);
            j
        }
        _ => json!({"id": v["id"], "ok": false, "err": "bad mode"}),
    }
}
fn main() {
    let stdin = std::io::stdin(); let out = std::io::stdout(); let mut out = std::io::BufWriter::new(out.lock());
    std::panic::set_hook(Box::new(|_| {}));
    for line in stdin.lock().lines() {
        let line = line.unwrap(); if line.is_empty() { continue; }
        let v: Value = serde_json::from_str(&line).unwrap();
        let v2 = v.clone();
        let j = match std::panic::catch_unwind(move || run(&v2)) { Ok(j) => j, Err(_) => json!({"id": v["id"], "ok": false, "err": "PANIC"}) };
        writeln!(out, "{}", j).unwrap();
    }
}
