use std::collections::HashMap;
use std::io::{BufRead, Write};
use std::path::PathBuf;
use sv_parser::*;
use serde_json::{json, Value};
fn main() {
    let stdin = std::io::stdin(); let out = std::io::stdout(); let mut out = std::io::BufWriter::new(out.lock());
    std::panic::set_hook(Box::new(|_| {}));
    for line in stdin.lock().lines() {
        let line = line.unwrap(); if line.is_empty() { continue; }
        let v: Value = serde_json::from_str(&line).unwrap();
        let text = v["text"].as_str().unwrap().to_string();
        let strip = v["strip"].as_bool().unwrap_or(false);
        let mut d: Defines = HashMap::new();
        if let Some(arr) = v["predef"].as_array() { for p in arr { let n = p["name"].as_str().unwrap().to_string(); let b = p["body"].as_str().map(|b| Define::new(n.clone(), vec![], Some(DefineText::new(b.to_string(), None)))); d.insert(n, b); } }
        let r = std::panic::catch_unwind(|| {
            let inc: Vec<PathBuf> = vec![];
            match preprocess_str(&text, "top.sv", &d, &inc, false, strip, 0, 0) {
                Ok((t, defs)) => { let mut names: Vec<String> = defs.iter().filter(|(k,_)| !k.starts_with("SV_COV_")).map(|(k,v)| match v { None => format!("{}=", k), Some(dd) => format!("{}={}", k, dd.text.as_ref().map(|t| t.text.trim().to_string()).unwrap_or("<none>".into())) }).collect(); names.sort();
                    let org: Vec<i64> = (0..t.text().len()).map(|i| t.origin(i).map(|(_,o)| o as i64).unwrap_or(-1)).collect();
                    json!({"id": v["id"], "ok": true, "out": t.text(), "defs": names, "org": org}) }
                Err(e) => json!({"id": v["id"], "ok": false, "err": format!("{:?}", e)}),
            }
        });
        let j = match r { Ok(j) => j, Err(_) => json!({"id": v["id"], "ok": false, "err": "PANIC"}) };
        writeln!(out, "{}", j).unwrap();
    }
}
