import json, sys, itertools, subprocess
ALPHA=['a',' ','\n','"','\\','/','*','\u00e9','`']
MAXLEN=int(sys.argv[1])
def scan(t, dev):
    """returns (ok, out, directive_free)"""
    i=0; n=len(t); out=[]; dfree=True
    def comment_at(i):
        if t.startswith("//",i):
            j=t.find("\n",i)
            return n if j<0 else j+1
        if t.startswith("/*",i):
            j=t.find("*/",i+2)
            return None if j<0 else j+2
        return None
    def trivia(i):
        """returns (end, dup_text, saw_directive)"""
        dup=[]; sawdir=False
        while i<n:
            c=t[i]
            if c in " \t":
                j=i
                while j<n and t[j] in " \t": j+=1
                dup.append(t[i:j]); i=j
            elif c in "\r\n":
                j=i
                while j<n and t[j] in " \t\r\n": j+=1
                i=j
            elif c=="/":
                e=comment_at(i)
                if e is None: break
                dup.append(t[i:e]); i=e
            elif c=="`":
                sawdir=True; break
            else: break
        return i,"".join(dup),sawdir
    while i<n:
        c=t[i]
        e=comment_at(i) if c=="/" else None
        if e is not None:
            out.append(t[i:e]); i=e; continue
        if c=="/" and (t.startswith("//",i) or t.startswith("/*",i)):
            return (False,None,dfree)   # unterminated block comment
        if c=='"':
            j=i+1; closed=False
            while j<n:
                if t[j]=="\\":
                    if j+1>=n: break
                    j+=2
                elif t[j]=='"': closed=True; j+=1; break
                else: j+=1
            if not closed: return (False,None,dfree)
            e,dup,sd=trivia(j)
            if sd: dfree=False
            out.append(t[i:e]+(dup if dev else "")); i=e; continue
        if c=="\\":
            j=i+1
            while j<n and t[j] not in " \t\r\n": j+=1
            if j==i+1: return (False,None,dfree)
            e,dup,sd=trivia(j)
            if sd: dfree=False
            out.append(t[i:e]+(dup if dev else "")); i=e; continue
        if c=="`":
            dfree=False; return (None,None,False)
        # not-directive run
        j=i
        while j<n:
            if t[j] in '`"\\': break
            if t[j]=="/":
                if j+1<n and t[j+1] in "/*": break
            j+=1
        out.append(t[i:j]); i=j
    return (True,"".join(out),dfree)
if sys.argv[2]=="gen":
    k=0
    with open("cases.ndjson","w") as f:
        for L in range(1,MAXLEN+1):
            for tup in itertools.product(ALPHA, repeat=L):
                f.write(json.dumps({"id":k,"text":"".join(tup)})+"\n"); k+=1
    print(k)
else:
    dev = sys.argv[2]=="dev"
    cases={}
    for l in open("cases.ndjson"):
        c=json.loads(l); cases[c["id"]]=c["text"]
    n=0;bad=0;skipped=0;ex=[];rej=0
    for l in open("results.ndjson"):
        r=json.loads(l); t=cases[r["id"]]
        ok,out,dfree=scan(t,dev)
        if not dfree: skipped+=1; continue
        n+=1
        if not ok: rej+=1
        got_ok=r["ok"]
        if got_ok!=ok or (ok and r["out"]!=out) or ((not got_ok) and not r["err"].startswith("Preprocess")):
            bad+=1
            if len(ex)<10: ex.append((t, ok, out, r.get("out"), r.get("err")))
    print("directive-free cases",n,"rejected-by-ref",rej,"skipped(non-dfree)",skipped,"mismatches",bad)
    for x in ex: print(repr(x))
