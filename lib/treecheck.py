"""Builds Tree_Trace records from harness results."""
import pp


def text_facts(text):
    b = text.encode()
    nls = [i for i, c in enumerate(b) if c == 10]
    nonb = [i for i, c in enumerate(b) if (c & 0xC0) == 0x80]
    return len(b), nls, nonb


def opt(x):
    return [] if x is None else x


def tree_record(rid, res, mode, dbg=None, max_events=6000):
    """res: harness result with 'tree' and 'text' (the preprocessed text). Returns None if the tree is too big."""
    t = res["tree"]
    if len(t["ev"]) > max_events:
        return None
    text = res.get("text")
    if text is None:
        text = res.get("root_str", "")
    n, nls, nonb = text_facts(text)
    probes = []
    for p in t.get("probes", []):
        probes.append({"id": p["id"], "sub": p["sub"], "subev": p["subev"], "gs": opt(p["get_str"]), "gst": opt(p["get_str_trim"]),
                       "ul": opt(p["unwrap_locate"]), "un": [x if x is not None else 0 for x in p["unwrap"]],
                       "adv": p.get("adv", 0), "advrest": p.get("adv_rest", []), "advev": p.get("adv_ev", []),
                       "other": p.get("other", 0), "multiit": p.get("multi_it", []), "multiev": p.get("multi_ev", [])})
    return {"id": str(rid), "kind": "tree", "mode": mode, "len": n, "nls": nls, "nonb": nonb,
            "kinds": t["kinds"], "locs": [opt(x) for x in t["locs"]], "tryloc": [opt(x) for x in t["try_loc"]],
            "ev": t["ev"], "iter": t["iter"], "probes": probes, "unsets": t.get("unwrap_sets", []),
            "dbg": dbg if dbg is not None else []}


def decorate(text, rng, heavy=True):
    """layout variant: some blank runs between tokens are replaced by heavier trivia
    (non-ASCII comments, CRLF, tabs); compiler directives are only put at line starts between tokens."""
    toks = pp.tokenize(text)
    if not toks:
        return text
    out = []
    prev_end = 0
    for (o, t, c) in toks:
        gap = text[prev_end:o]
        if gap and "`" not in gap and rng.random() < 0.3:
            r = rng.random()
            if r < 0.3:
                gap = gap + "/* é日本 */ "
            elif r < 0.5:
                gap = gap.replace("\n", "\r\n") if "\n" in gap else gap + "\t"
            elif r < 0.7:
                gap = " // c ü\n" if heavy else gap
            elif r < 0.85 and heavy:
                gap = gap + "\n`celldefine\n"
            else:
                gap = gap + "  "
        out.append(gap)
        out.append(t)
        prev_end = o + len(t)
    out.append(text[prev_end:])
    return "".join(out)
