"""Concretisation / abstraction glue for the Preproc specification (trusted, kept dumb).

render_files : abstract files (sequences of items, see specs/Preproc.tla) -> source text, with the
               byte offset / line / lexical tokens of every item written back into the item
tokenize     : text -> lexical tokens (the comparison granularity of C04/C05/C10/C11/C18)
observe_pp   : raw harness result of a preprocess call -> the `obs` part of a trace record
"""
import re

WORD = re.compile(r"[A-Za-z0-9_$]+")


def tokenize(text):
    """-> list of (offset, text, is_comment). Maximal [A-Za-z0-9_$] runs, string literals, escaped
    identifiers, comments, every other non-blank character on its own."""
    out = []
    i = 0
    n = len(text)
    while i < n:
        c = text[i]
        if c in " \t\r\n\f":
            i += 1
        elif text.startswith("//", i):
            j = text.find("\n", i)
            j = n if j < 0 else j
            if j > i and text[j - 1] == "\r" and j < n:
                j -= 1                      # the CR of a CRLF line end is not part of the comment
            out.append((i, text[i:j], True))
            i = j
        elif text.startswith("/*", i):
            j = text.find("*/", i + 2)
            j = n if j < 0 else j + 2
            out.append((i, text[i:j], True))
            i = j
        elif c == '"':
            j = i + 1
            while j < n and text[j] != '"':
                j += 2 if text[j] == "\\" else 1
            j = min(n, j + 1)
            out.append((i, text[i:j], False))
            i = j
        elif c == "\\" and i + 1 < n and text[i + 1] not in " \t\r\n":
            j = i + 1
            while j < n and text[j] not in " \t\r\n":
                j += 1
            out.append((i, text[i:j], False))
            i = j
        else:
            m = WORD.match(text, i)
            if m:
                out.append((i, m.group(0), False))
                i = m.end()
            else:
                out.append((i, c, False))
                i += 1
    return out


# ---------------------------------------------------------------------------------------------
# item constructors (uniform record shape: TLC wants homogeneous records)

def item(k, n="", a=None, b=None, f=0, g=False):
    return {"k": k, "n": n, "a": a if a is not None else [], "b": b if b is not None else [], "f": f,
            "ts": [], "to": [], "off": 0, "ln": 0, "ln2": 0, "g": g}


def bt(k, n="", a=None, g=False):
    """body token"""
    return {"k": k, "n": n, "a": a if a is not None else [], "g": g}


def tok(t, g=False): return item("tok", t, g=g)
def nl(): return item("nl")
def strlit(t): return item("str", t)
def cmt(t, block=True): return item("cmt", t, f=1 if block else 0)
def kept(t): return item("kept", t)
def undef(n): return item("undef", n)
def undefall(): return item("undefall")
def ifdef(n): return item("ifdef", n)
def ifndef(n): return item("ifndef", n)
def elsif(n): return item("elsif", n)
def else_(): return item("else")
def endif(): return item("endif")
def pos(n): return item("pos", n)
def inc(n, form=0): return item("inc", n, f=form)


def use(n, args=None, g=False):
    """args: None (no list) or list of actuals (each a list of body tokens; [] = empty actual)"""
    return item("use", n, a=[] if args is None else [args], g=g)


def define(n, formals=None, body=None):
    """formals: None or list of (name, default body-token list | None); body: None or body-token list"""
    fa = []
    for (fn, d) in (formals or []):
        fa.append({"n": fn, "d": [] if d is None else [{"src": "", "toks": d}]})
    return item("def", n, a=fa, b=[] if body is None else [{"src": "", "toks": body, "boff": 0}], f=1 if formals is not None else 0)


# ---------------------------------------------------------------------------------------------
# rendering

_CUR_NL = "\n"


def render_btoks(toks):
    """body tokens -> text. Tokens are separated by one blank except around `` (paste) and where g."""
    s = ""
    prev_glue = True
    for t in toks:
        k = t["k"]
        if k == "paste":
            s += "``"
            prev_glue = True
            continue
        if k == "lit" or k == "id":
            x = t["n"]
        elif k == "str":
            x = t["n"]
        elif k == "use":
            x = "`" + t["n"] + render_args(t["a"])
        elif k == "bqs":
            x = '`"' + "".join(p["n"] for p in t["a"]) + '`"'
        elif k == "cont":
            x = "\\" + _CUR_NL           # line continuation, written with the line end of the file being rendered
        elif k == "lcmt":
            x = "// " + t["n"]
        elif k == "pos":
            x = "`" + t["n"]
        elif k == "inc":
            x = '`include "%s"' % t["n"]
        elif k == "cmt":
            x = t["n"]
            if x.startswith("//"):
                x += _CUR_NL             # a one-line comment inside an actual argument: the usage continues on the next line
        elif k == "def":
            src = render_btoks(t["a"])
            t["s"] = src.strip()
            x = "`define " + t["n"] + " " + src
        elif k == "undef":
            x = "`undef " + t["n"]
        elif k == "undefall":
            x = "`undefineall"
        elif k == "cond":
            th, el = render_btoks(t["a"][0]["a"]), render_btoks(t["a"][1]["a"])
            x = "`%s %s %s `else %s `endif" % (t["s"], t["n"], th, el)
        else:
            raise ValueError(k)
        if not prev_glue:
            s += " "
        s += x
        prev_glue = bool(t.get("g"))
    return s


def render_args(a):
    if not a:
        return ""
    return "(" + ",".join(render_btoks(x) for x in a[0]) + ")"


def render_item(it):
    k = it["k"]
    if k in ("tok", "str", "kept"):
        return it["n"]
    if k == "cmt":
        return ("/*" + it["n"] + "*/") if it["f"] == 1 else ("//" + it["n"])
    if k == "nl":
        return "\n"
    if k == "def":
        s = "`define " + it["n"]
        if it["f"] == 1:
            parts = []
            for fa in it["a"]:
                p = fa["n"]
                if fa["d"]:
                    src = render_btoks(fa["d"][0]["toks"])
                    fa["d"][0]["src"] = src.strip()
                    p += "=" + src
                parts.append(p)
            s += "(" + ",".join(parts) + ")"
        if it["b"]:
            src = render_btoks(it["b"][0]["toks"])
            it["b"][0]["boff"] = len(s.encode())
            it["b"][0]["src"] = src.strip()
            s += " " + src
        return s
    if k == "undef":
        return "`undef " + it["n"]
    if k == "undefall":
        return "`undefineall"
    if k in ("ifdef", "ifndef", "elsif"):
        return "`" + k + " " + it["n"]
    if k in ("else", "endif"):
        return "`" + k
    if k == "use":
        # sp: white space between the macro name and its argument list (legal, 22.5.1)
        return "`" + it["n"] + (" " if it.get("sp") and it["a"] else "") + render_args(it["a"])
    if k == "inc":
        if it["f"] == 0:
            return '`include "%s"' % it["n"]
        if it["f"] == 1:
            return "`include <%s>" % it["n"]
        return "`include `" + it["n"]
    if k == "pos":
        return "`" + it["n"]
    raise ValueError(k)


EMITTING = ("tok", "str", "kept", "def", "undef", "undefall")


def render_file(items, blank=" ", nl="\n"):
    """Renders the items, filling off/ln/ln2/ts/to. Returns the text.  nl: how a line break item is written (LF / CRLF)."""
    global _CUR_NL
    _CUR_NL = nl
    out = []
    pos_b = 0
    line = 1
    prev = None
    for it in items:
        t = render_item(it) if it["k"] != "nl" else nl
        if prev is not None and prev["k"] != "nl" and it["k"] != "nl" and not prev["g"]:
            out.append(blank)
            pos_b += len(blank.encode())
        it["off"] = pos_b
        it["ln"] = line
        line += t.count("\n")
        it["ln2"] = line if it["k"] != "nl" else it["ln"]
        if it["k"] != "nl":
            tk = tokenize(t)
            it["ts"] = [x[1] for x in tk]
            # byte offsets (texts may contain non-ASCII)
            it["to"] = [len(t[:x[0]].encode()) for x in tk]
        out.append(t)
        pos_b += len(t.encode())
        prev = it
    _CUR_NL = "\n"
    return "".join(out)


def predef_entry(name, none=False, formals=None, body=None):
    """caller-supplied define: body is body-token list or None"""
    if none:
        formals, body = None, None
    fa = []
    for (fn, d) in (formals or []):
        fa.append({"n": fn, "d": [] if d is None else [{"src": render_btoks(d).strip(), "toks": d}]})
    return {"n": name, "none": none, "f": 1 if formals else 0, "a": fa,
            "b": [] if body is None else [{"src": render_btoks(body).strip(), "toks": body, "boff": 0}],
            "file": "", "off": 0}


def predef_to_harness(entries):
    out = []
    for e in entries:
        if e["none"]:
            out.append({"name": e["n"], "none": True})
        else:
            out.append({"name": e["n"],
                        "args": [[fa["n"], fa["d"][0]["src"] if fa["d"] else None] for fa in e["a"]],
                        "body": e["b"][0]["src"] if e["b"] else None})
    return out


# ---------------------------------------------------------------------------------------------
# abstraction of what the library returned

def origin_at(runs, p):
    for (pos, n, path, off) in runs:
        if pos <= p < pos + n:
            if path is None:
                return ("", 0)
            return (path, off + (p - pos))
    return ("", 0)


def err_to_spec(e):
    k = e["kind"]
    if k == "Include":
        return ["Include", err_to_spec(e["inner"])]
    if k in ("File", "ReadUtf8"):
        return [k, e["path"]]
    if k in ("DefineArgNotFound", "DefineNotFound", "DefineNoArgs"):
        return [k, e["name"]]
    if k in ("Parse", "Preprocess"):
        loc = e.get("loc")
        return [k, [] if loc is None else [[loc[0], loc[1]]]]
    return [k]


SV_COV_PREDEFINED = {"SV_COV_START", "SV_COV_STOP", "SV_COV_RESET", "SV_COV_CHECK", "SV_COV_MODULE", "SV_COV_HIER", "SV_COV_ASSERTION",
                     "SV_COV_FSM_STATE", "SV_COV_STATEMENT", "SV_COV_TOGGLE", "SV_COV_OVERFLOW", "SV_COV_ERROR", "SV_COV_NOCOV", "SV_COV_OK",
                     "SV_COV_PARTIAL"}


def defs_view(defs):
    """returned define table as the property states it (SV_COV_* left aside, texts trimmed)"""
    out = []
    for d in defs:
        if d["name"] in SV_COV_PREDEFINED:       # the fifteen names of IEEE 1800-2017 40.5.1, exactly: SV_COV_LEVEL is a user's macro
            continue
        if d.get("none"):
            out.append({"n": d["name"], "none": True, "a": [], "b": []})
        else:
            out.append({"n": d["name"], "none": False,
                        "a": [{"n": a[0], "d": [] if a[1] is None else [a[1].strip()]} for a in d["args"]],
                        "b": [] if d["body"] is None else [d["body"].strip()]})
    return out


def blank_pieces(text, runs, toks_pos, toks_end):
    """maximal runs of blank bytes, split where the origin map is not contiguous:
    [{t, f, off, prev, next}] with prev/next = 1-based index of the neighbouring token (0 = none)"""
    b = text.encode()
    out = []
    n = len(b)
    i = 0
    import bisect
    inside = bytearray(n)
    for a, e in zip(toks_pos, toks_end):
        for q in range(a, e):
            inside[q] = 1          # blanks inside strings/comments belong to the token
    while i < n:
        if b[i] in b" \t\r\n\f" and not inside[i]:
            j = i
            f, off = origin_at(runs, i)
            while j + 1 < n and b[j + 1] in b" \t\r\n\f" and not inside[j + 1]:
                f2, off2 = origin_at(runs, j + 1)
                if f2 != f or (f != "" and off2 != off + (j + 1 - i)):
                    break
                j += 1
            k = bisect.bisect_right(toks_pos, i)     # tokens starting before i
            nxt = k + 1 if k < len(toks_pos) else 0
            out.append({"t": b[i:j + 1].decode("utf-8", "replace"), "f": f, "off": off, "prev": k, "next": nxt})
            i = j + 1
        else:
            i += 1
    return out


def observe_pp(res):
    """harness result of preprocess/preprocess_str -> obs record for Preproc_Trace"""
    oc = res.get("outcome")
    obs = {"outcome": oc, "toks": [], "blanks": [], "defs": [], "err": [], "msg": ""}
    if oc == "ok":
        text = res["text"]
        runs = res.get("origins", [])
        tb = text.encode()
        toks = []
        tokpos = []
        # tokenize works on str offsets; origins are byte offsets
        for (o, t, c) in tokenize(text):
            tokpos.append(o)
            bo = len(text[:o].encode())
            f, off = origin_at(runs, bo)
            # contiguity of the token's bytes in the origin map
            contig = True
            for k in range(1, len(t.encode())):
                f2, off2 = origin_at(runs, bo + k)
                if f2 != f or (f != "" and off2 != off + k):
                    contig = False
                    break
            toks.append({"t": t, "f": f, "off": off, "c": c, "ct": contig})
        # comments inside the text of a kept `define directive are not comments of the output (C18)
        i = 0
        while i + 1 < len(toks):
            if toks[i]["t"] == "`" and toks[i + 1]["t"] == "define" and tokpos[i + 1] == tokpos[i] + 1:
                end = tokpos[i]
                while True:
                    j = text.find("\n", end)
                    if j < 0:
                        end = len(text)
                        break
                    if j > 0 and text[j - 1] == "\\":
                        end = j + 1
                        continue
                    end = j
                    break
                k = i
                while k < len(toks) and tokpos[k] < end:
                    toks[k]["c"] = False
                    k += 1
                i = k
            else:
                i += 1
        obs["toks"] = toks
        tk = tokenize(text)
        obs["blanks"] = blank_pieces(text, runs, toks_pos=[len(text[:o].encode()) for (o, t, c) in tk],
                                     toks_end=[len(text[:o].encode()) + len(t.encode()) for (o, t, c) in tk])
        obs["defs"] = defs_view(res["defs"])
    elif oc == "err":
        obs["err"] = err_to_spec(res["err"])
    else:
        obs["msg"] = str(res.get("msg", res.get("rc", "")))[:200]
    return obs
