"""Seeded generator of mixed preprocessor programs (abstract items of specs/Preproc.tla)."""
import pp


class U:
    def __init__(self):
        self.n = 0

    def tok(self, p="t", g=False):
        self.n += 1
        return pp.tok("%s%03d" % (p, self.n), g=g)


# the pool of macro names; a check may install names that lie next to the predefined ones (round-7 seeded change: the returned table
# lost every name that starts with SV_COV_)
NAMES = ["A", "B", "C"]
NEAR_PREDEFINED = ["SV_COV_LEVEL", "SV_COV_", "SV_COVX"]


def mixed_program(rng, u, depth=0, allow_pos=True, size=None, macros=None, comments=True, strings=True):
    """returns items; `macros`: dict name -> number of formals currently defined (tracked loosely;
    the specification decides what a usage yields, including errors)"""
    items = []
    macros = macros if macros is not None else {}
    n = size if size is not None else rng.randint(2, 9)
    for _ in range(n):
        r = rng.random()
        if r < 0.22:
            items.append(u.tok())
        elif r < 0.30 and comments:
            # comment as the only separator between two tokens
            a = u.tok(g=True)
            c = pp.cmt(" g%d " % u.n)
            c["g"] = True
            items += [a, c, u.tok()]
        elif r < 0.33 and comments:
            # a usage that directly abuts the previous token, of a macro whose expansion OPENS with a comment that is
            # directly followed by a token: the comment is the only separator, through the expansion boundary
            name = rng.choice(NAMES)
            c = pp.bt("cmt", "/* open%d */" % u.n, g=True)
            items += [pp.define(name, None, [c, pp.bt("lit", "o%d" % u.n)]), pp.nl(), u.tok(g=True), pp.use(name), u.tok(), pp.nl()]
            macros[name] = 0
        elif r < 0.36 and comments:
            items.append(pp.cmt(" c%d " % u.n))
        elif r < 0.40 and comments:
            items += [pp.cmt(" l%d" % u.n, block=False), pp.nl()]
        elif r < 0.45 and strings:
            items += [pp.strlit('"s%d //x /*y*/"' % u.n), u.tok()]
        elif r < 0.58:
            name = rng.choice(NAMES)
            nf = rng.choice([0, 0, 1, 2])
            formals = [("p%d" % i, [pp.bt("lit", "dflt%d" % i)] if rng.random() < 0.3 and i == nf - 1 else None) for i in range(nf)] if nf else None
            body = []
            for _ in range(rng.randint(0, 4)):
                q = rng.random()
                if q < 0.4:
                    body.append(pp.bt("lit", "b%d" % rng.randint(0, 99)))
                elif q < 0.6 and nf:
                    body.append(pp.bt("id", "p%d" % rng.randrange(nf)))
                elif q < 0.75 and comments:
                    body.append(pp.bt("cmt", "/* bc%d */" % rng.randint(0, 9)))
                elif q < 0.80 and not (body and body[-1]["k"] == "str"):
                    body.append(pp.bt("undef", rng.choice(NAMES)) if rng.random() < 0.85 else pp.bt("undefall"))
                elif q < 0.88 and macros:
                    m = rng.choice(sorted(macros))
                    if macros[m] == 0 and m != name:
                        body.append(pp.bt("use", m))
                elif q < 0.93 and body and body[-1]["k"] == "lit":
                    # a conditional inside the body (chosen when the expansion is rescanned); directly behind a plain token only
                    def br():
                        return [pp.bt("lit", "c%d" % rng.randint(0, 99)) for _ in range(rng.randint(0, 2))]
                    body.append({"k": "cond", "n": rng.choice(NAMES), "s": rng.choice(["ifdef", "ifndef"]), "g": False,
                                 "a": [{"k": "grp", "n": "", "a": br(), "g": False, "s": ""}, {"k": "grp", "n": "", "a": br(), "g": False, "s": ""}]})
                else:
                    body.append(pp.bt("lit", rng.choice(["+", "-", ";"])))
            if body and body[-1]["k"] == "use":
                # a body never ENDS in a usage: behind the expansion of a macro without formals the restored group would be read as
                # the argument list of that inner usage (the specification restores the group as separate tokens; thorough false alarm)
                body.append(pp.bt("lit", ";"))
            if comments and rng.random() < 0.2:
                body.append(pp.bt("lcmt", "tail%d" % u.n))
            items += [pp.define(name, formals, body if body else None), pp.nl()]
            macros[name] = nf
        elif r < 0.64:
            name = rng.choice(NAMES)
            items += [pp.undef(name), pp.nl()]
            macros.pop(name, None)
        elif r < 0.80:
            name = rng.choice(sorted(macros)) if macros and rng.random() < 0.9 else rng.choice(NAMES)
            nf = macros.get(name, 0)
            def actual():
                a = [pp.bt("lit", "x%d" % rng.randint(0, 99))] if rng.random() < 0.85 else []
                if comments and rng.random() < 0.25:
                    # a comment inside an actual argument (or inside the group written behind a macro without formals)
                    a.insert(rng.randint(0, len(a)), pp.bt("cmt", "/* ac%d */" % rng.randint(0, 9)))
                elif comments and rng.random() < 0.2:
                    # a ONE-LINE comment inside an actual argument: the usage spans several lines (round-6 seeded change:
                    # a fast path for "plain" expansions skipped the rescan that strips the comment)
                    a.insert(rng.randint(0, len(a)), pp.bt("cmt", "// al%d" % rng.randint(0, 9)))
                elif rng.random() < 0.2:
                    # a usage of a macro without formals inside an actual argument / inside the group behind a macro without
                    # formals: its expansion is as a rule not as long as its spelling (round-7 seeded change: origin entries
                    # coalesced on the assumption that a segment's output is as long as its source range)
                    zs = [m for m in sorted(macros) if macros[m] == 0 and m != name]
                    if zs:
                        a.insert(rng.randint(0, len(a)), pp.bt("use", rng.choice(zs)))
                return a
            if nf == 0:
                if name in macros and rng.random() < 0.2:
                    # a parenthesised group behind a macro without formals is ordinary text that follows the expansion
                    items.append(pp.use(name, [actual() for _ in range(rng.randint(1, 2))]))
                else:
                    items.append(pp.use(name))
            else:
                k = nf if rng.random() < 0.85 else rng.randint(0, nf)
                items.append(pp.use(name, [actual() for _ in range(max(1, k))]))
            if items[-1]["k"] == "use" and items[-1]["a"] and rng.random() < 0.2:
                items[-1]["sp"] = True          # white space between the macro name and its argument list
            if items[-1]["k"] == "use" and items[-1]["a"] and rng.random() < 0.25:
                items[-1]["g"] = True           # the closing parenthesis is directly followed by the next token
                items.append(pp.tok(rng.choice(["+", ";", "-"])))
            if comments and rng.random() < 0.3:
                items.append(pp.cmt(" after use "))
        elif r < 0.90 and depth < 2:
            name = rng.choice(NAMES + ["__LINE__"]) if allow_pos else rng.choice(NAMES)
            items.append(pp.ifdef(name) if rng.random() < 0.6 else pp.ifndef(name))
            sub_m = dict(macros)
            items += mixed_program(rng, u, depth + 1, allow_pos, rng.randint(0, 3), sub_m, comments, strings)
            for _ in range(rng.choice([0, 0, 0, 1, 1, 2, 3])):      # chains with several `elsif: at most one branch is live
                items.append(pp.elsif(rng.choice(NAMES)))
                items += mixed_program(rng, u, depth + 1, allow_pos, rng.randint(0, 2), dict(macros), comments, strings)
            if rng.random() < 0.5:
                items.append(pp.else_())
                items += mixed_program(rng, u, depth + 1, allow_pos, rng.randint(0, 2), dict(macros), comments, strings)
            items.append(pp.endif())
            if comments and rng.random() < 0.3:
                items.append(pp.cmt(" after endif "))
        elif r < 0.95:
            # every directive that the preprocessor copies as a whole (each has its own arm in the event loop)
            items += [pp.kept(rng.choice(["`celldefine", "`endcelldefine", "`default_nettype none", "`timescale 1ns/1ps", "`nounconnected_drive",
                                          "`unconnected_drive pull1", "`unconnected_drive pull0", "`line 3 \"f.sv\" 0", "`pragma protect",
                                          "`begin_keywords \"1800-2012\"", "`end_keywords", "`resetall", "`default_nettype wire"])), pp.nl()]
        else:
            items.append(pp.nl())
    return items


def finish_file(items):
    """a file ends with a newline; a line comment or `define is always followed by one"""
    out = []
    for i, it in enumerate(items):
        out.append(it)
        nxt = items[i + 1] if i + 1 < len(items) else None
        if (it["k"] == "def" or (it["k"] == "cmt" and it["f"] == 0)) and (nxt is None or nxt["k"] != "nl"):
            out.append(pp.nl())
    if not out or out[-1]["k"] != "nl":
        out.append(pp.nl())
    # a string literal directly followed by a comment/directive is known finding D2 territory: allowed, the
    # deviation of the specification is exact for it
    return out
