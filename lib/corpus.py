"""The repository's own corpus, extracted at check time from /repo's working tree:
the `test!` snippets of sv-parser-parser/src/tests.rs (wrapped so that a public entry point can parse
them), sv-parser/testcases/*.sv and the preprocessor test cases of sv-parser-pp/testcases."""
import re, glob, os, hashlib

PAT = re.compile(r'test!\(\s*([a-z_0-9]+(?:\([a-z_0-9]+\))?)\s*,\s*(?:r(#+)"(.*?)"\2|"((?:[^"\\]|\\.)*)")\s*,\s*(Ok|Err)', re.S)


def parser_corpus():
    """-> list of dicts {kind: 'sv'|'lib', text, src}"""
    s = open('/repo/sv-parser-parser/src/tests.rs').read()
    out = []
    seen = set()
    for m in PAT.finditer(s):
        p = m.group(1)
        txt = m.group(3) if m.group(3) is not None else bytes(m.group(4), 'utf8').decode('unicode_escape')
        if m.group(5) != "Ok":
            continue
        if p in ("many1(module_item)", "module_item"):
            c = ("sv", "module w__;\n" + txt + "\nendmodule\n")
        elif p in ("source_text", "module_declaration"):
            c = ("sv", txt)
        elif p == "library_text":
            c = ("lib", txt)
        else:
            continue
        if c in seen:
            continue
        seen.add(c)
        out.append({"kind": c[0], "text": c[1], "src": "tests.rs:" + p})
    for f in sorted(glob.glob('/repo/sv-parser/testcases/*.sv')):
        out.append({"kind": "sv", "text": open(f).read(), "src": os.path.basename(f)})
    return out


def digest(text):
    return hashlib.sha1(text.encode()).hexdigest()[:12]


def pp_testcases():
    """-> list of (name, text) of the preprocessor test inputs"""
    out = []
    for f in sorted(glob.glob('/repo/sv-parser-pp/testcases/*.sv')):
        try:
            out.append((os.path.basename(f), open(f).read()))
        except UnicodeDecodeError:
            pass
    return out
