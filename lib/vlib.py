"""Shared driver machinery for the sv-parser TLA+ conformance checks (stdlib only).

Flow of one check (see DESIGN.md 2.3):
  build harness against /repo  ->  TLC model checking of the design spec (MC)
  ->  case generation (TLC GEN export and/or seeded generators)
  ->  real library executed in isolated worker processes (harness `svverif worker`)
  ->  TLC trace validation of the records (TV)  ->  classification  ->  evidence file.
Exit codes: 0 property held, 1 VIOLATION (with replay file), 2 tooling failure.
"""
import json, os, re, subprocess, sys, time, hashlib, shutil, threading, random

ROOT = os.path.dirname(os.path.dirname(os.path.abspath(__file__)))
REPO = "/repo"
HARNESS = os.path.join(ROOT, "harness")
SPECS = os.path.join(ROOT, "specs")
WORK = os.path.join(ROOT, "work")
BIN = os.path.join(HARNESS, "target", "debug", "svverif")
NCPU = min(16, os.cpu_count() or 4)


class ToolError(Exception):
    pass


def log(*a):
    print("[verif]", *a, file=sys.stderr, flush=True)


def seed_from_env():
    try:
        return int(os.environ.get("VERIF_SEED", "1"))
    except ValueError:
        return 1


# --------------------------------------------------------------------------------------------
# build

def _sweep_stale_work():
    """scratch left behind by interrupted runs (TLC metadirs can be gigabytes)"""
    for sub in ("tlc", "traces", "fs"):
        d = os.path.join(WORK, sub)
        if not os.path.isdir(d):
            continue
        for e in os.listdir(d):
            p = os.path.join(d, e)
            try:
                if time.time() - os.path.getmtime(p) > 3 * 3600:
                    shutil.rmtree(p, ignore_errors=True)
            except OSError:
                pass


def build_harness():
    """(Re)build the harness against /repo's current working tree, hooks on."""
    _sweep_stale_work()
    t0 = time.time()
    env = dict(os.environ)
    env["CARGO_NET_OFFLINE"] = "true"
    env.pop("RUSTFLAGS", None)
    lock = os.path.join(HARNESS, "Cargo.lock")
    if not os.path.exists(lock):
        shutil.copy(os.path.join(REPO, "Cargo.lock"), lock)
    p = subprocess.run(["cargo", "build", "--offline", "--quiet"], cwd=HARNESS, env=env,
                       stdout=subprocess.PIPE, stderr=subprocess.STDOUT, text=True)
    if p.returncode != 0:
        sys.stderr.write(p.stdout[-6000:])
        raise ToolError("cargo build of the harness failed (does /repo still compile with --cfg sv_parser_verif?)")
    p = subprocess.run([BIN, "selfcheck"], stdout=subprocess.PIPE, stderr=subprocess.STDOUT, text=True)
    if p.returncode != 0:
        raise ToolError("harness selfcheck failed: " + p.stdout)
    log("harness built in %.1fs" % (time.time() - t0))
    return time.time() - t0


# --------------------------------------------------------------------------------------------
# executing cases in isolated worker processes

def _run_shard(idx, cases, out, limit_ms, tag):
    """Feed `cases` to a worker; a dead worker is restarted after the case in flight."""
    pos = 0
    fsroot = os.path.join(WORK, "fs", "%s-%d-%d" % (tag, os.getpid(), idx))
    while pos < len(cases):
        chunk = cases[pos:]
        inp = "".join(json.dumps(c) + "\n" for c in chunk)
        p = subprocess.Popen([BIN, "worker", fsroot, str(limit_ms)], stdin=subprocess.PIPE,
                             stdout=subprocess.PIPE, stderr=subprocess.DEVNULL)
        so, _ = p.communicate(inp.encode())
        lines = [l for l in so.decode("utf-8", "replace").split("\n") if l.strip()]
        got = 0
        for l in lines:
            try:
                r = json.loads(l)
            except ValueError:
                continue
            if got >= len(chunk):
                break
            if r.get("timeout"):
                out[pos + got] = {"id": chunk[got]["id"], "results": [{"outcome": "timeout"}], "timeout": True}
                got += 1
                break
            out[pos + got] = r
            got += 1
        if got < len(chunk) and not (got > 0 and out[pos + got - 1] is not None and out[pos + got - 1].get("timeout")):
            # worker died while executing chunk[got]
            if p.returncode not in (0, None) or got < len(chunk):
                if p.returncode == 0:
                    raise ToolError("worker exited early without fault")
                out[pos + got] = {"id": chunk[got]["id"], "results": [{"outcome": "crash", "rc": p.returncode}],
                                  "crash": True}
                got += 1
        pos += got
    shutil.rmtree(fsroot, ignore_errors=True)


def run_cases(cases, limit_ms=20000, workers=None, tag="x"):
    """Execute harness cases; returns results aligned with `cases`."""
    if not cases:
        return []
    workers = workers or NCPU
    workers = max(1, min(workers, len(cases)))
    out = [None] * len(cases)
    shards = [[] for _ in range(workers)]
    index = [[] for _ in range(workers)]
    for i, c in enumerate(cases):
        shards[i % workers].append(c)
        index[i % workers].append(i)
    outs = [[None] * len(s) for s in shards]
    errs = []

    def work(k):
        try:
            _run_shard(k, shards[k], outs[k], limit_ms, tag)
        except Exception as e:  # noqa
            errs.append(e)

    ths = [threading.Thread(target=work, args=(k,)) for k in range(workers)]
    for t in ths:
        t.start()
    for t in ths:
        t.join()
    if errs:
        raise ToolError("worker failure: %r" % errs[0])
    for k in range(workers):
        for j, i in enumerate(index[k]):
            out[i] = outs[k][j]
    for i, r in enumerate(out):
        if r is None:
            raise ToolError("no result for case %r" % cases[i].get("id"))
    return out


# --------------------------------------------------------------------------------------------
# TLC

TLC_JAR = "/opt/veriftools/tla/tla2tools.jar"


def _tlc_cmd(spec, cfg, workers, extra, metadir, heap="4g"):
    cp = TLC_JAR
    cm = "/opt/veriftools/tla/CommunityModules-deps.jar"
    # use the `tlc` wrapper (it has the CommunityModules on its classpath)
    cmd = ["tlc", "-workers", str(workers), "-noGenerateSpecTE", "-metadir", metadir, "-cleanup",
           "-config", cfg] + list(extra) + [spec]
    return cmd


def tlc_unquote(line):
    """TLC prints a string value with surrounding quotes and \\-escapes"""
    body = line[1:-1]
    out = []
    i = 0
    while i < len(body):
        c = body[i]
        if c == "\\" and i + 1 < len(body):
            n = body[i + 1]
            out.append({"n": "\n", "t": "\t", "r": "\r", "f": "\f"}.get(n, n))
            i += 2
        else:
            out.append(c)
            i += 1
    return "".join(out)


class TlcResult:
    def __init__(self, out, rc, wall):
        self.out = out
        self.rc = rc
        self.wall = wall
        self.states = 0
        self.distinct = 0
        self.generated = 0
        m = None
        for m in re.finditer(r"(\d+) states generated, (\d+) distinct states found", out):
            pass
        if m:
            self.generated = int(m.group(1))
            self.distinct = int(m.group(2))
        self.violation = ("is violated" in out) or ("Error: " in out and "Invariant" in out)
        self.error = "Error:" in out
        self.finished = "Model checking completed" in out or "Finished in" in out
        self.prints = []
        # PrintT("TAG|...") prints one quoted string per line
        for line in out.split("\n"):
            if len(line) >= 2 and line[0] == '"' and line[-1] == '"' and "|" in line:
                self.prints.append(tlc_unquote(line))

    def coverage_zero(self):
        """actions with zero count under -coverage (vacuity guard)"""
        zero = []
        for m in re.finditer(r"<(\w+) line \d+, col \d+ to line \d+, col \d+ of module (\w+)>: (\d+):(\d+)", self.out):
            if int(m.group(3)) == 0 and int(m.group(4)) == 0:
                zero.append(m.group(1))
        return sorted(set(zero))


def run_tlc(spec, cfg, workers=4, extra=(), env=None, timeout=1800, xss=True, heap="6g", cwd=None, deque=False):
    """Run TLC on specs/<spec> with specs/<cfg>; returns TlcResult. Tool errors raise ToolError."""
    cwd = cwd or SPECS
    os.makedirs(WORK, exist_ok=True)
    metadir = os.path.join(WORK, "tlc", "%s-%d-%d" % (os.path.basename(cfg), os.getpid(), random.randrange(1 << 30)))
    os.makedirs(metadir, exist_ok=True)
    e = dict(os.environ)
    opts = "-Xmx%s" % heap
    if xss:
        opts += " -Xss1g"
    if deque:
        opts += " -Dtlc2.tool.queue.IStateQueue=StateDeque"
    e["JAVA_TOOL_OPTIONS"] = opts
    if env:
        e.update(env)
    cmd = ["timeout", str(timeout)] + _tlc_cmd(spec, cfg, workers, extra, metadir)
    t0 = time.time()
    p = subprocess.run(cmd, cwd=cwd, env=e, stdout=subprocess.PIPE, stderr=subprocess.STDOUT, text=True)
    wall = time.time() - t0
    shutil.rmtree(metadir, ignore_errors=True)
    if p.returncode == 124:
        raise ToolError("TLC timed out after %ds on %s" % (timeout, cfg))
    return TlcResult(p.stdout, p.returncode, wall)


def tlc_model_check(spec, cfg, workers=4, expect_violation=False, timeout=1800, extra=(), env=None):
    """MC run of a design spec.  A model-level invariant failure is a *spec* problem => ToolError
    (exit 2), unless this is a refutation config (expect_violation) where NOT finding one is."""
    r = run_tlc(spec, cfg, workers=workers, extra=list(extra), timeout=timeout, env=env)
    if expect_violation:
        if not r.violation:
            sys.stderr.write(r.out[-3000:])
            raise ToolError("refutation config %s: expected counterexample not found" % cfg)
    else:
        if r.violation or r.error or not r.finished:
            sys.stderr.write(r.out[-4000:])
            raise ToolError("model checking of %s/%s failed (spec-level problem)" % (spec, cfg))
        if "-coverage" in list(extra):
            zero = r.coverage_zero()
            if zero:
                # vacuity guard: an action that was never taken means the property was never exercised
                raise ToolError("model checking of %s/%s: actions never taken: %s" % (spec, cfg, zero))
    return r


def apalache_check(spec, cinit, init, inv, length, expect_error=False, timeout=1500):
    """Symbolic check with Apalache (inductive-invariant obligations).  Returns wall seconds.  A failed
    obligation is a spec-level problem (ToolError), unless expect_error (refutation), where success is."""
    out = os.path.join(WORK, "apalache", "%s-%d" % (inv, os.getpid()))
    shutil.rmtree(out, ignore_errors=True)
    os.makedirs(out)
    src = os.path.join(out, spec)
    shutil.copy(os.path.join(SPECS, spec), src)
    t0 = time.time()
    cmd = ["timeout", str(timeout), "apalache-mc", "check", "--cinit=" + cinit, "--init=" + init, "--inv=" + inv, "--length=%d" % length,
           "--out-dir=" + os.path.join(out, "o"), "--run-dir=" + os.path.join(out, "r"), spec]
    p = subprocess.run(cmd, cwd=out, stdout=subprocess.PIPE, stderr=subprocess.STDOUT)
    txt = p.stdout.decode("utf-8", "replace")
    wall = time.time() - t0
    ok = "The outcome is: NoError" in txt
    err = "The outcome is: Error" in txt
    shutil.rmtree(out, ignore_errors=True)
    if expect_error:
        if not err:
            raise ToolError("apalache refutation %s/%s: expected counterexample not found\n%s" % (spec, inv, txt[-1500:]))
    elif not ok:
        raise ToolError("apalache obligation %s init=%s inv=%s failed\n%s" % (spec, init, inv, txt[-2500:]))
    log("apalache %s init=%s inv=%s length=%d: %s in %.1fs" % (spec, init, inv, length, "counterexample (expected)" if expect_error else "holds", wall))
    return wall


def tlc_export(spec, cfg, tag="REPLAY", workers=1, timeout=1800, extra=(), env=None):
    """GEN: run a generator spec whose invariant prints <<"TAG", json-string>> per behaviour."""
    r = run_tlc(spec, cfg, workers=workers, extra=list(extra), timeout=timeout, env=env)
    if r.violation or (r.error and "Error:" in r.out) or not r.finished:
        sys.stderr.write(r.out[-4000:])
        raise ToolError("generator %s/%s failed" % (spec, cfg))
    out = []
    pre = tag + "|"
    for line in r.prints:
        if line.startswith(pre):
            out.append(json.loads(line[len(pre):]))
    return out, r


def byteview_json(r):
    """One NDJSON line in which every string is the latin-1 view of its UTF-8 bytes: inside TLC one
    character = one byte, so Len/SubSeq agree with the byte offsets the library reports."""
    s = json.dumps(r, separators=(",", ":"), ensure_ascii=False)
    if s.isascii():
        return s
    s = s.encode("utf-8", "surrogatepass").decode("latin-1")
    return "".join(c if ord(c) < 128 else "\\u%04x" % ord(c) for c in s)


def tlc_validate(spec, cfg, records, shards=None, timeout=1800, env=None, tag="tv"):
    """TV: write `records` as NDJSON shards, run the trace spec on each shard (one JVM, one worker
    each), return (bad, stats) where bad = {record id: [reasons]}.
    The trace spec prints <<"BAD", id, reasons>> per rejected record and <<"SUMMARY", consumed, nbad>>."""
    if not records:
        return {}, {"states": 0, "transitions": 0, "consumed": 0, "wall": 0.0}
    keep = os.environ.get("VERIF_KEEP_TRACES")
    if keep:
        os.makedirs(keep, exist_ok=True)
        with open(os.path.join(keep, os.path.basename(spec) + ".ndjson"), "a") as f:
            seen_kinds = set()
            for r in records:
                k = r.get("kind", "")
                if k not in seen_kinds:
                    seen_kinds.add(k)
                    f.write(json.dumps(r, separators=(",", ":")) + "\n")      # plain: samples are fed back through this function
    shards = shards or max(1, min(NCPU // 2, (len(records) + 399) // 400))
    d = os.path.join(WORK, "traces", "%s-%d" % (tag, os.getpid()))
    shutil.rmtree(d, ignore_errors=True)
    os.makedirs(d)
    files = []
    for k in range(shards):
        part = records[k::shards]
        if not part:
            continue
        fn = os.path.join(d, "t%d.ndjson" % k)
        with open(fn, "w") as f:
            for r in part:
                f.write(byteview_json(r) + "\n")
        files.append((fn, len(part)))
    results = [None] * len(files)
    errs = []

    def work(i):
        fn, n = files[i]
        e = {"TRACE": fn}
        if env:
            e.update(env)
        try:
            results[i] = run_tlc(spec, cfg, workers=1, env=e, timeout=timeout, heap="3g")
        except Exception as ex:  # noqa
            errs.append(ex)

    ths = [threading.Thread(target=work, args=(i,)) for i in range(len(files))]
    for t in ths:
        t.start()
    for t in ths:
        t.join()
    if errs:
        raise ToolError("trace validation failed to run: %r" % errs[0])
    bad = {}
    consumed = 0
    states = 0
    trans = 0
    wall = 0.0
    for (fn, n), r in zip(files, results):
        summ = None
        nb = 0
        for line in r.prints:
            if line.startswith("BAD|"):
                _, rid, reasons = line.split("|", 2)
                bad.setdefault(rid, []).append(reasons)
                if not rid.startswith("DEV:"):
                    nb += 1
            elif line.startswith("SUMMARY|"):
                p = line.split("|")
                summ = (int(p[1]), int(p[2]))
        if summ is not None and summ[1] != nb:
            sys.stderr.write(r.out[-3000:])
            raise ToolError("trace spec %s reported %d rejected records but %d BAD lines were parsed" % (spec, summ[1], nb))
        if summ is None or summ[0] != n or r.violation or not r.finished:
            sys.stderr.write(r.out[-5000:])
            raise ToolError("trace spec %s did not consume shard %s (%r of %d)" % (spec, fn, summ, n))
        consumed += summ[0]
        states += r.distinct
        trans += r.generated
        wall = max(wall, r.wall)
    shutil.rmtree(d, ignore_errors=True)
    return bad, {"states": states, "transitions": trans, "consumed": consumed, "wall": wall}


# --------------------------------------------------------------------------------------------
# known findings / verdicts / evidence

def load_known():
    with open(os.path.join(ROOT, "known_findings.json")) as f:
        return json.load(f)


class Verdict:
    def __init__(self, prop, tier, seed):
        self.prop = prop
        self.tier = tier
        self.seed = seed
        self.violations = []   # (summary, replay path)
        self.known = {}        # finding id -> [count, example]
        self.t0 = time.time()
        self.cov = {"states": 0, "transitions": 0, "traces_validated_against_impl": 0, "evaluations": 0,
                    "distinct_nontrivial": 0, "samples": [], "mc_runs": [], "tv_runs": [], "known_findings_seen": []}
        self.assumptions = []

    def add_mc(self, name, r, note=""):
        self.cov["states"] += r.distinct
        self.cov["transitions"] += r.generated
        self.cov["mc_runs"].append({"config": name, "distinct_states": r.distinct, "states_generated": r.generated,
                                    "wall_s": round(r.wall, 1), "note": note})

    def add_tv(self, name, stats, n_cases):
        self.cov["states"] += stats["states"]
        self.cov["transitions"] += stats["transitions"]
        self.cov["traces_validated_against_impl"] += stats["consumed"]
        self.cov["tv_runs"].append({"trace_spec": name, "records": stats["consumed"], "wall_s": round(stats["wall"], 1)})

    def known_finding(self, fid, what, example=None, props=None):
        k = self.known.setdefault(fid, [0, what, example, props])
        k[0] += 1

    def violation(self, summary, replay_obj):
        d = os.path.join(ROOT, "replays", self.prop)
        os.makedirs(d, exist_ok=True)
        h = hashlib.sha1(json.dumps(replay_obj, sort_keys=True).encode()).hexdigest()[:12]
        path = os.path.join(d, "%s.json" % h)
        with open(path, "w") as f:
            json.dump({"property": self.prop, "summary": summary, "case": replay_obj}, f, indent=1)
        self.violations.append((summary, path))

    def finish(self, level="model_checking", rule="", exhaustive=False, extra=None):
        cov = self.cov
        cov["rule"] = rule
        cov["exhaustive"] = exhaustive
        cov["known_findings_seen"] = [{"finding": k, "cases": v[0], "what": v[1], "example": v[2], "properties": v[3]} for k, v in sorted(self.known.items())]
        if extra:
            cov.update(extra)
        if not cov["samples"]:
            cov["samples"] = ["(no sample recorded)"]
        ev = {"property_id": self.prop, "tier": self.tier, "seed": self.seed, "level": level, "coverage": cov,
              "assumptions": self.assumptions, "wall_s": round(time.time() - self.t0, 1),
              "violations": len(self.violations)}
        os.makedirs(os.path.join(ROOT, "evidence"), exist_ok=True)
        with open(os.path.join(ROOT, "evidence", "%s.json" % self.prop), "w") as f:
            json.dump(ev, f, indent=1)
        for fid, (n, what, ex, props) in sorted(self.known.items()):
            # a finding is reported under the property it violates (it can surface in another property's check)
            p = self.prop if (not props or self.prop in props) else props[0]
            print("KNOWN-FINDING: property=%s %s %s (%d case%s%s)" % (
                p, fid, what, n, "" if n == 1 else "s", ("; e.g. " + json.dumps(ex)[:300]) if ex is not None else ""))
        seen = set()
        for summary, path in self.violations[:20]:
            print("VIOLATION property=%s replay=%s %s" % (self.prop, path, summary[:400]))
        if self.violations:
            print("%d violation(s) of %s" % (len(self.violations), self.prop))
            return 1
        print("OK property=%s tier=%s traces=%d states=%d wall=%.0fs" % (
            self.prop, self.tier, cov["traces_validated_against_impl"], cov["states"], time.time() - self.t0))
        return 0


def main_wrapper(fn):
    try:
        rc = fn()
    except ToolError as e:
        print("TOOL-ERROR: %s" % e, file=sys.stderr)
        sys.exit(2)
    sys.exit(rc)
