"""Sentences of specs/Grammar.tla.  The grammar is dumped from the TLA+ module (single source of
truth); derivations are chosen here (seeded) or exported by TLC; the token texts are recomputed here
exactly as Grammar!Shift does - Grammar_Trace re-derives every sentence and rejects a record whose
tokens differ, so a drift between this file and the specification cannot go unnoticed."""
import json, os
import vlib

_G = None

IDKIND = {"ModuleDeclarationWildcard": "ModuleIdentifier", "InterfaceDeclarationWildcard": "InterfaceIdentifier", "ProgramDeclarationWildcard": "ProgramIdentifier",
          "InterfaceClassDeclaration": "ClassIdentifier",
          "ModuleDeclarationAnsi": "ModuleIdentifier", "ModuleDeclarationNonansi": "ModuleIdentifier", "InterfaceDeclarationAnsi": "InterfaceIdentifier",
          "ProgramDeclarationAnsi": "ProgramIdentifier", "PackageDeclaration": "PackageIdentifier", "ClassDeclaration": "ClassIdentifier",
          "AnsiPortDeclaration": "PortIdentifier", "ParamAssignment": "ParameterIdentifier", "NetDeclAssignment": "NetIdentifier",
          "VariableDeclAssignment": "VariableIdentifier", "TypeIdentifier": "TypeIdentifier", "FunctionDeclaration": "FunctionIdentifier",
          "TaskDeclaration": "TaskIdentifier", "ModuleInstantiation": "ModuleIdentifier", "HierarchicalInstance": "InstanceIdentifier",
          "NamedPortConnection": "PortIdentifier", "NamedParameterAssignment": "ParameterIdentifier", "GenvarDeclaration": "GenvarIdentifier",
          "ModportItem": "ModportIdentifier", "InterfaceDeclarationNonansi": "InterfaceIdentifier", "ProgramDeclarationNonansi": "ProgramIdentifier"}


def grammar():
    global _G
    if _G is None:
        r = vlib.run_tlc("MC_Grammar.tla", "MC_Grammar_dump.cfg", workers=1)
        for line in r.prints:
            if line.startswith("GRAMMAR|"):
                _G = json.loads(line[len("GRAMMAR|"):])
                break
        if _G is None:
            raise vlib.ToolError("grammar dump failed:\n" + r.out[-2000:])
        _check_cost0_acyclic(_G["prod"])
    return _G


def _check_cost0_acyclic(prod):
    """every cycle of the grammar must pass through a growing (cost 1) alternative, otherwise derivations
    with an exhausted budget need not terminate"""
    edges = {nt: set() for nt in prod}
    for nt, alts in prod.items():
        for a in alts:
            if a["c"] == 0:
                for s in a["rhs"]:
                    if s["t"] == "nt":
                        edges[nt].add(s["v"])
    state = {}

    def visit(n, path):
        if state.get(n) == 2:
            return
        if state.get(n) == 1:
            raise vlib.ToolError("Grammar.tla: cycle through cost-0 alternatives: %s" % " -> ".join(path + [n]))
        state[n] = 1
        for m in sorted(edges[n]):
            visit(m, path + [n])
        state[n] = 2
    for n in sorted(edges):
        visit(n, [])


def id_text(k):
    pool = grammar()["pool"]
    return pool[(k - 1) % len(pool)] + str(k)


def expand(start, budget, choose):
    """leftmost derivation; choose(nt, allowed alternative numbers (1-based), budget) -> k.
    returns (choices, toks [(text, role)])"""
    g = grammar()
    prod = g["prod"]
    lits = g["lits"]
    form = [{"t": "nt", "v": start}]
    toks = []
    choices = []
    ids = 0
    nl = 0
    while form:
        s = form.pop(0)
        if s["t"] == "nt":
            alts = prod[s["v"]]
            allowed = [i + 1 for i, a in enumerate(alts) if a["c"] == 0 or budget > 0]
            k = choose(s["v"], allowed, budget, alts)
            choices.append(k)
            a = alts[k - 1]
            if a["c"] == 1:
                budget -= 1
            form = list(a["rhs"]) + form
        elif s["t"] == "id":
            ids += 1
            toks.append((id_text(ids), "id"))
        elif s["t"] == "lit":
            lt = lits[s["v"]]
            toks.append((lt[nl % len(lt)], "lit"))
            nl += 1
        else:
            toks.append((s["v"], s["t"]))
    return choices, toks


def replay(start, budget, choices):
    it = iter(choices)
    return expand(start, budget, lambda nt, allowed, b, alts: next(it))[1]


def render(toks, sep=" "):
    """tokens separated by one blank (an escaped identifier needs the blank anyway); returns (text, byte offsets)"""
    out = []
    offs = []
    pos = 0
    for i, (t, r) in enumerate(toks):
        if i:
            out.append(sep)
            pos += len(sep.encode())
        offs.append(pos)
        out.append(t)
        pos += len(t.encode())
    return "".join(out) + "\n", offs


def random_derivation(rng, start="source", budget=12):
    def choose(nt, allowed, b, alts):
        grow = [k for k in allowed if alts[k - 1]["c"] == 1]
        if grow and rng.random() < 0.6:
            return rng.choice(grow)
        return rng.choice(allowed)
    return expand(start, budget, choose)


def sentences(rng, n, budget=10):
    out = []
    for _ in range(n):
        ch, toks = random_derivation(rng, "source", rng.randint(2, budget))
        out.append(render(toks)[0])
    return out


def observe(res, tracked):
    """tree projection for Grammar_Trace: pairs of tracked kinds with their identifier, non-whitespace leaves"""
    obs = {"outcome": res.get("outcome"), "pairs": [], "leaves": [], "err": []}
    if obs["outcome"] == "err":
        import pp
        obs["err"] = pp.err_to_spec(res["err"])
        return obs
    if obs["outcome"] != "ok":
        obs["outcome"] = str(obs["outcome"])
        return obs
    t = res["tree"]
    kinds = t["kinds"]
    locs = t["locs"]
    text = res.get("text") or res.get("root_str", "")
    tb = text.encode()
    ev = t["ev"]
    # stack walk: for every open tracked node remember the first identifier-kind descendant's first token
    stack = []      # [kind, idkind, state] state: None | "in-id" | text
    ws = 0
    # leaves are reported at their SOURCE offset (origin of the token's first byte): the preprocessed
    # text can differ from the source in blanks (known finding D2 duplicates blanks after a string literal)
    src_off = {}
    for lo in t.get("leaf_origins", []):
        src_off[lo[0]] = lo[2] if lo[1] is not None else -1
    for e in ev:
        i = abs(e) - 1
        k = kinds[i]
        if e > 0:
            if k == "WhiteSpace":
                ws += 1
            for fr in stack:
                if fr[2] is None and fr[1] == k:
                    fr[2] = "in-id"
            if k in tracked:
                stack.append([k, IDKIND.get(k), "in-id" if IDKIND.get(k) == k else None])
            if k == "Locate":
                o, l, ln = locs[i]
                tx = tb[o:o + l].decode("utf-8", "replace")
                if ws == 0:
                    obs["leaves"].append([tx, src_off.get(o, o)])
                    for fr in stack:
                        if fr[2] == "in-id":
                            fr[2] = ("text", tx)
        else:
            if k == "WhiteSpace":
                ws -= 1
            if k in tracked:
                fr = stack.pop()
                idt = fr[2][1] if isinstance(fr[2], tuple) else ""
                obs["pairs"].append([k, idt if fr[1] else ""])
    return obs
