"""Common part of the checks that are decided by the Preproc specification."""
import copy, json, os, sys
import vlib, pp

OPEN_DEVS = None


def open_deviations(module="Preproc"):
    k = vlib.load_known()
    return sorted({f["deviation"] for f in k["findings"] if f["status"] == "open" and f.get("spec") == module})


def finding_for_deviation(dev):
    k = vlib.load_known()
    for f in k["findings"]:
        if f.get("deviation") == dev:
            return f
    return None


def make_env(case):
    """abstract case -> env record of the spec + concrete harness case. Renders files (mutates items)."""
    files = []
    texts = {}
    for path, items in case["files"].items():
        texts[path] = pp.render_file(items, blank=case.get("blank", " "), nl=case.get("nl", "\n"))
        files.append({"n": path, "items": items})
    fs = [{"p": p, "kind": "file"} for p in case["files"]]
    for p, kind in case.get("fs_extra", {}).items():
        fs.append({"p": p, "kind": kind})
    env = {"files": files, "ftext": [{"n": p, "text": t} for p, t in texts.items()], "fs": fs, "incdirs": case.get("incdirs", []), "ign": bool(case.get("ign")),
           "strip": bool(case.get("strip")), "top": case["top"], "predef": case.get("predef", [])}
    hfiles = dict(texts)
    for p, kind in case.get("fs_extra", {}).items():
        if kind == "bad":
            hfiles[p] = {"bytes": [0x6d, 0xff, 0xfe, 0x0a]}
        elif kind == "dir":
            hfiles[p] = {"dir": True}
    call = {"fn": case.get("fn", "preprocess"), "path": case["top"], "defines": pp.predef_to_harness(env["predef"]),
            "incdirs": env["incdirs"], "ignore_include": env["ign"], "strip_comments": env["strip"]}
    if call["fn"] == "preprocess_str":
        call["text"] = texts[case["top"]]
    return env, hfiles, call, texts


def build_run_records(cases, tag, check_origins=True, limit_ms=20000, extra_calls=None, hooks=None):
    """cases: abstract cases (dicts with id, files, top, ...). Executes them and returns
    (records, harness_cases, raw_results)."""
    hcases = []
    envs = []
    for c in cases:
        env, hfiles, call, texts = make_env(c)
        envs.append((env, texts))
        if hooks:
            call = dict(call)
            call["hooks"] = sorted(set((call.get("hooks") or []) + list(hooks)))
        calls = [call]
        if extra_calls:
            calls += extra_calls(c, env, call, texts)
        hcases.append({"id": c["id"], "files": hfiles, "calls": calls, "fresh_each": True})
    results = vlib.run_cases(hcases, limit_ms=limit_ms, tag=tag)
    records = []
    for c, (env, texts), r in zip(cases, envs, results):
        obs = pp.observe_pp(r["results"][0])
        records.append({"id": str(c["id"]), "kind": "run", "org": bool(check_origins), "env": env, "obs": obs})
    return records, hcases, results


def validate_with_deviations(v, spec, records, by_id, tag, describe):
    """TV pass 1 with Dev = {}; rejected records are re-validated with the open deviations switched
    on.  Accepted then, and only because a deviation fired => KNOWN-FINDING; else VIOLATION.
    by_id: id -> replayable object; describe(id) -> short text."""
    bad, stats = vlib.tlc_validate(spec + ".tla", spec + ".cfg", records, tag=tag)
    v.add_tv(spec, stats, len(records))
    if not bad:
        return bad
    devs = open_deviations()
    rej = [r for r in records if r["id"] in bad]
    explained = {}
    bad2 = {}
    if devs:
        cfg = os.path.join(vlib.WORK, "%s_dev_%d.cfg" % (spec, os.getpid()))
        base = open(os.path.join(vlib.SPECS, spec + ".cfg")).read()
        with open(cfg, "w") as f:
            f.write(base.replace("Dev = {}", "Dev = {%s}" % ", ".join('"%s"' % d for d in devs)))
        bad2, stats2 = vlib.tlc_validate(spec + ".tla", cfg, rej, tag=tag + "d", env={"VERIF_REPORT_DEV": "1"})
        v.add_tv(spec + "[Dev=open findings]", stats2, len(rej))
        os.remove(cfg)
        for r in rej:
            if r["id"] not in bad2:
                explained[r["id"]] = bad2.get("DEV:" + r["id"])
        # which deviation fired is reported by the trace spec as <<"BAD", "DEV:<id>", devs>>
        for rid in list(explained):
            fired = bad2.get("DEV:" + rid)
            if not fired:
                del explained[rid]       # accepted without any deviation firing: not explained
    for rid, reasons in bad.items():
        if devs and rid in bad2:
            reasons = reasons + ["with open deviations on: " + "; ".join(bad2[rid])]
        if rid in explained:
            fired = explained[rid][0]
            for d in devs:
                if d in fired:
                    f = finding_for_deviation(d)
                    v.known_finding(f["id"], "%s (%s)" % (f["title"], d), describe(rid), f.get("properties"))
                    break
        else:
            v.violation("%s: %s" % (describe(rid), "; ".join(reasons)[:600]), by_id.get(rid))
    return bad


def case_from_env_json(e, cid):
    """A complete env record exported by TLC (ToJson(Env)) -> abstract case for the renderer:
    every item on its own line (the MC modules number lines that way)."""
    files = {}
    for f in e["files"]:
        items = []
        for it in f["items"]:
            it = dict(it)
            it["g"] = bool(it.get("g"))
            items.append(it)
            items.append(pp.nl())
        files[f["n"]] = items
    fs_extra = {}
    for x in e["fs"]:
        if x["kind"] != "file":
            fs_extra[x["p"]] = x["kind"]
    return {"id": cid, "files": files, "top": e["top"], "incdirs": list(e["incdirs"]), "ign": bool(e["ign"]),
            "strip": bool(e["strip"]), "predef": list(e["predef"]), "fs_extra": fs_extra}
