"""Projections of the tree dump produced by the harness (kinds, locs, ev, iter)."""
import hashlib, json


def fingerprint(tree):
    return hashlib.sha1(json.dumps([tree["kinds"], tree["ev"], tree["locs"]]).encode()).hexdigest()[:16]


def leaves(tree):
    k = tree["kinds"]
    return [tree["locs"][i - 1] for i in tree["iter"] if k[i - 1] == "Locate"]


def skeleton(tree, text, with_offsets=False, drop_ws=True):
    """node kinds and token texts in event order, WhiteSpace subtrees removed"""
    k = tree["kinds"]
    out = []
    skip = 0
    tb = text.encode()
    for e in tree["ev"]:
        i = abs(e) - 1
        if e > 0:
            if drop_ws and k[i] == "WhiteSpace":
                skip += 1
            if skip == 0:
                if k[i] == "Locate":
                    o, l, ln = tree["locs"][i]
                    t = tb[o:o + l].decode("utf-8", "replace")
                    out.append([t, o] if with_offsets else t)
                else:
                    out.append("+" + k[i])
        else:
            if skip == 0 and k[i] != "Locate":
                out.append("-")
            if drop_ws and k[i] == "WhiteSpace":
                skip -= 1
    return out


def skel_hash(tree, text, with_offsets=False):
    return hashlib.sha1(json.dumps(skeleton(tree, text, with_offsets)).encode()).hexdigest()[:16]


def result_summary(res, want_skel=False):
    """harness parse result -> [outcome, fp, defs, err, text] record for Api_Trace"""
    import pp
    oc = res.get("outcome")
    r = {"outcome": oc if oc in ("ok", "err") else str(oc), "fp": "", "defs": [], "err": [], "text": "", "skel": ""}
    if oc == "ok":
        if "tree" in res:
            r["fp"] = fingerprint(res["tree"])
            if want_skel == "pruned":
                r["skel"] = skel_hash_pruned(res["tree"], res.get("root_str", ""))
            elif want_skel:
                r["skel"] = skel_hash(res["tree"], res.get("root_str", ""))
            r["text"] = hashlib.sha1(res.get("root_str", "").encode()).hexdigest()[:12]
        elif "leaves" in res:      # raw nom entry point
            r["fp"] = hashlib.sha1(json.dumps([res["leaves"], res.get("rest_off")]).encode()).hexdigest()[:16]
        else:
            r["text"] = hashlib.sha1(res.get("text", "").encode()).hexdigest()[:12]
            r["fp"] = hashlib.sha1(json.dumps(res.get("origins", [])).encode()).hexdigest()[:12]
        r["defs"] = pp.defs_view(res.get("defs", []))
    elif oc == "err":
        if res["err"].get("kind") == "Raw":
            r["err"] = ["Raw", res["err"].get("pos") if res["err"].get("pos") is not None else -1]
        else:
            r["err"] = pp.err_to_spec(res["err"])
    return r


def skeleton_pruned(tree, text, drop_kinds=("WhiteSpace", "ResetallCompilerDirective")):
    """like skeleton(), but subtrees of the kinds in drop_kinds are removed and so is every node that is left
    without any token (a `resetall between descriptions is a description of its own, not a WhiteSpace node)"""
    k = tree["kinds"]
    tb = text.encode()
    stack = [[]]      # each frame: list of rendered children
    kinds_stack = []
    for e in tree["ev"]:
        i = abs(e) - 1
        if e > 0:
            kinds_stack.append(k[i])
            stack.append([])
        else:
            kind = kinds_stack.pop()
            children = stack.pop()
            if kind in drop_kinds:
                continue
            if kind == "Locate":
                o, l, ln = tree["locs"][i]
                stack[-1].append(tb[o:o + l].decode("utf-8", "replace"))
            elif children:
                stack[-1].append([kind] + children)
    return stack[0]


def skel_hash_pruned(tree, text):
    return hashlib.sha1(json.dumps(skeleton_pruned(tree, text)).encode()).hexdigest()[:16]
