"""C19 — concurrent calls on different threads do not interfere.

MC   MC_Threads: N copies of the parser runtime, all interleavings: NonInterference holds when nothing is
     shared (N = 2, 3) and is refuted for a shared version stack and for a shared memo table.
code (a) static assumption check over /repo's sources: every `static` must be inside thread_local!, and no
         lazy_static / OnceCell / Mutex / RwLock / Atomic* / static mut may appear in the library crates -
         this is what the model's Shared = {} stands for;
     (b) N in {2,4,16} threads started on a barrier run mixed calls (same and distinct inputs, state-polluting
         ones included) in a loop; Api_Trace kind "conc": each call's result and per-thread hook-event
         projection equal its solo run.  The interleavings exercised are whatever the OS produces.
"""
import random, json, os, re, glob, hashlib
import vlib, tree, c07

SUSPECT = re.compile(r"\b(lazy_static|OnceCell|once_cell|OnceLock|Mutex|RwLock|Atomic[A-Z]\w*|static\s+mut)\b")


def static_scan():
    """returns list of (file, line, text) of shared mutable state candidates"""
    out = []
    for crate in ("sv-parser", "sv-parser-parser", "sv-parser-pp", "sv-parser-syntaxtree", "sv-parser-error", "sv-parser-macros"):
        for f in glob.glob("/repo/%s/src/**/*.rs" % crate, recursive=True):
            if f.endswith("tests.rs"):
                continue
            lines = open(f).read().split("\n")
            depth_tl = 0
            in_tl = False
            for i, ln in enumerate(lines):
                if "thread_local!" in ln or "nom_packrat::storage!" in ln:
                    in_tl = True
                    depth_tl = 0
                if in_tl:
                    depth_tl += ln.count("(") - ln.count(")")
                    if depth_tl <= 0 and (")" in ln):
                        in_tl = False
                    continue
                code = ln.split("//")[0]
                if SUSPECT.search(code):
                    out.append((f, i + 1, ln.strip()))
                m = re.match(r"\s*(pub(\([a-z]+\))?\s+)?static\s+(?!mut)(\w+)\s*:\s*(.*)", code)
                if m and ("Cell" in m.group(4) or "Mutex" in m.group(4)):
                    out.append((f, i + 1, ln.strip()))
    return out


def summary(res):
    s = tree.result_summary(res)
    ev = [[h["k"]] + h["n"] + h["s"] for h in res.get("hooks", [])]
    s["events"] = hashlib.sha1(json.dumps(ev).encode()).hexdigest()[:16]
    return s


def run(tier, seed):
    v = vlib.Verdict("C19", tier, seed)
    vlib.build_harness()
    rng = random.Random(seed)
    quick = tier == "quick"
    for c in ("n2", "n3"):
        r = vlib.tlc_model_check("MC_Threads.tla", "MC_Threads_%s.cfg" % c, workers=4, extra=["-coverage", "1"])
        v.add_mc("MC_Threads_" + c, r, "NonInterference, nothing shared, all interleavings")
    for c in ("refute_ver", "refute_memo"):
        r = vlib.tlc_model_check("MC_Threads.tla", "MC_Threads_%s.cfg" % c, workers=4, expect_violation=True)
        v.add_mc("MC_Threads_" + c, r, "refutation: shared state breaks NonInterference")
    sus = static_scan()
    for (f, ln, txt) in sus:
        v.violation("shared mutable state outside thread_local!: %s:%d: %s" % (f, ln, txt), {"file": f, "line": ln, "text": txt})
    hooks = ["begin_keywords", "end_keywords", "clear_version", "init", "pp_enter", "pp_leave"]
    ops = [(e, i) for e in ("preprocess_str", "parse_sv_str", "parse_sv_str_inc", "parse_lib_str") for i in c07.INPUTS]

    def mk(op):
        c = c07.call(*op)
        c["hooks"] = hooks
        c.pop("state", None)
        return c
    solo_cases = [{"id": "s%d" % i, "calls": [mk(op)]} for i, op in enumerate(ops)]
    solo = {op: summary(r["results"][0]) for op, r in zip(ops, vlib.run_cases(solo_cases, tag="c19s"))}
    cases = []
    meta = []
    rounds = 12 if quick else 120
    for n in (2, 4, 16):
        for r_ in range(rounds):
            threads = []
            tops = []
            same = rng.random() < 0.3
            base = [rng.choice(ops) for _ in range(6)]
            for t in range(n):
                seq = base if same else [rng.choice(ops) for _ in range(6)]
                threads.append([mk(op) for op in seq])
                tops.append(seq)
            cases.append({"id": len(cases), "threads": threads, "limit_ms": 120000})
            meta.append(tops)
    vlib.log("C19: %d concurrent rounds" % len(cases))
    res = vlib.run_cases(cases, tag="c19", limit_ms=120000, workers=4)
    recs = []
    info = {}
    for c, r, tops in zip(cases, res, meta):
        for ti, (thr, seq) in enumerate(zip(r.get("threads", []), tops)):
            for ci, (rr, op) in enumerate(zip(thr, seq)):
                rid = "%d.%d.%d" % (c["id"], ti, ci)
                recs.append({"id": rid, "kind": "conc", "solo": solo[op], "conc": summary(rr)})
                info[rid] = {"threads": len(tops), "op": list(op)}
    bad, stats = vlib.tlc_validate("Api_Trace.tla", "Api_Trace.cfg", recs, tag="c19")
    v.add_tv("Api_Trace[conc]", stats, len(recs))
    for rid, reasons in bad.items():
        v.violation("%s: %s" % (json.dumps(info[rid]), "; ".join(reasons)[:300]), info[rid])
    v.cov["evaluations"] = len(recs)
    v.cov["distinct_nontrivial"] = len(cases)
    v.cov["static_scan_hits"] = len(sus)
    v.cov["samples"] = [{"round": info[r["id"]], "solo": r["solo"]["outcome"], "concurrent": r["conc"]["outcome"]} for r in recs[:3]]
    v.assumptions = ["the interleavings exercised on the real code are whatever the OS scheduler produces (no yield points to drive)",
                     "static scan: a `static` with interior mutability outside thread_local! would be reported; proc-macro generated code is not scanned"]
    return v.finish(level="model_checking", rule="rounds of N in {2,4,16} threads x 6 calls over %d (entry, input) operations started on a barrier; non-trivial = rounds; "
                    "model: all interleavings of MC_Threads" % len(ops), exhaustive=False)


def replay(path):
    print(json.dumps(json.load(open(path)), indent=1))
    return 0
