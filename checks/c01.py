"""C01 — the concrete syntax tree is lossless: tokens tile the preprocessed text.

MC   MC_Tree (the traversal the tiling is read through) - see C16; the Tiling operators of Tree.tla.
TV   Tree_Trace on every tree returned by the parse_sv / parse_lib families (strict and incomplete),
     for the repository corpus, layout variants (non-ASCII comments, CRLF, tabs, kept directives) and
     sentences of the Grammar specification: token stream folded by TLC (no gap, no overlap, no empty
     token, character boundaries, line = 1 + newlines before, end of text / prefix), get_str and
     Locate::try_from of sampled nodes = span of their own tokens, and - independently of Iter and of
     the Node derive - the token order of the derive(Debug) rendering of the raw parser's value.
"""
import random, json
import vlib, corpus, treecheck


def inputs(tier, seed):
    rng = random.Random(seed)
    quick = tier == "quick"
    cor = corpus.parser_corpus()
    rng.shuffle(cor)
    cor = cor[: (300 if quick else len(cor))]
    out = []
    for x in cor:
        out.append((x["kind"], x["text"], "corpus"))
        if rng.random() < (0.5 if quick else 1.0):
            out.append((x["kind"], treecheck.decorate(x["text"], rng, heavy=True), "corpus+layout"))
    try:
        import svgen
        for s in svgen.sentences(rng, 150 if quick else 3000):
            out.append(("sv", s, "grammar"))
            out.append(("sv", treecheck.decorate(s, rng, heavy=True), "grammar+layout"))
        # one sentence per alternative of the grammar (every construct form, incl. the high-arity full forms)
        import c02
        sw = c02.class_sweep(rng)
        for (st, b, ch, note) in [x for x in sw if (not quick) or x[3].endswith('/0')]:
            c = c02.build_case("x", st, b, ch)
            out.append(("sv", c["text"], "grammar-sweep"))
    except ImportError:
        pass
    # library-map texts: the property speaks about EVERY input parse_lib accepts, well-formed or not - all short token
    # sequences of the library-map vocabulary (missing file paths, stray separators, options without value ...); whatever
    # is accepted has to tile (round-3 seeded change: an accepted map with an EMPTY file-path leaf)
    import itertools
    voc = ["library", "include", "lib", "a.v", "../d/*.sv", ",", ";", "-incdir", "config", "endconfig"]
    seqs = [q for n in (2, 3, 4) for q in itertools.product(voc, repeat=n) if q[0] in ("library", "include", ";", "config")]
    rng.shuffle(seqs)
    for q in seqs[: (700 if quick else 8000)]:
        out.append(("lib", " ".join(q) + "\n", "lib-fragments"))
        if rng.random() < 0.2:
            out.append(("lib", "".join(t if t in (",", ";") else " " + t for t in q).strip() + "\n", "lib-fragments"))
    return out


def run(tier, seed):
    v = vlib.Verdict("C01", tier, seed)
    vlib.build_harness()
    quick = tier == "quick"
    r = vlib.tlc_model_check("MC_Tree.tla", "MC_Tree_quick.cfg", workers=8)
    v.add_mc("MC_Tree", r, "traversal machines (the order in which tokens are read)")
    ins = inputs(tier, seed)
    hcases = []
    meta = {}
    for i, (kind, text, src) in enumerate(ins):
        fam = "sv" if kind == "sv" else "lib"
        calls = [
            {"fn": "two_step_%s_str" % fam, "path": "t.sv", "text": text, "probe_nodes": 25, "seed": seed + i},
            {"fn": "two_step_%s_str" % fam, "path": "t.sv", "text": text, "allow_incomplete": True, "probe_nodes": 5, "seed": seed + i},
            {"fn": "raw_%s" % fam, "text_from": 0, "debug_locs": True},
        ]
        if i % 7 == 0:
            # incomplete mode on a source with unparsable tail: a prefix is tiled
            calls.append({"fn": "two_step_%s_str" % fam, "path": "t.sv", "text": text + "\n@@@ endmodule junk", "allow_incomplete": True, "probe_nodes": 5, "seed": seed})
        hcases.append({"id": i, "calls": calls})
        meta[str(i)] = {"text": text, "src": src}
    results = vlib.run_cases(hcases, tag="c01", limit_ms=60000)
    recs = []
    kinds = set()
    skipped = 0
    nonascii = 0
    for h, res in zip(hcases, results):
        rs = res["results"]
        if rs[0].get("outcome") != "ok":
            skipped += 1
            if rs[0].get("outcome") not in ("err",):
                v.violation("entry point did not return Ok/Err: %r" % rs[0], meta[str(h["id"])])
            continue
        dbg = rs[2].get("debug_locs") if rs[2].get("outcome") == "ok" else None
        for j, (rr, mode) in enumerate([(rs[0], "strict"), (rs[1], "incomplete")] + ([(rs[3], "incomplete")] if len(rs) > 3 else [])):
            if rr.get("outcome") != "ok":
                if j == 1:
                    v.violation("incomplete mode fails where strict mode accepts: %r" % rr.get("err"), meta[str(h["id"])])
                continue
            rec = treecheck.tree_record("%d.%d" % (h["id"], j), rr, mode, dbg=dbg if j == 0 else None)
            if rec is None:
                continue
            meta[rec["id"]] = meta[str(h["id"])]
            kinds.update(rec["kinds"])
            if rec["nonb"]:
                nonascii += 1
            recs.append(rec)
    vlib.log("C01: %d trees from %d inputs (%d not accepted)" % (len(recs), len(ins), skipped))
    bad, stats = vlib.tlc_validate("Tree_Trace.tla", "Tree_Trace.cfg", recs, tag="c01", shards=8)
    v.add_tv("Tree_Trace", stats, len(recs))
    for rid, reasons in bad.items():
        v.violation("source %r: %s" % (meta[rid]["text"][:300], "; ".join(reasons)[:500]), meta[rid])
    v.cov["evaluations"] = len(recs)
    v.cov["distinct_nontrivial"] = len({meta[r["id"]]["text"] for r in recs})
    v.cov["trees_with_non_ascii_text"] = nonascii
    v.cov["reached_node_kinds"] = len(kinds)
    try:
        import os
        with open(os.path.join(vlib.WORK, "c01_kinds.json"), "w") as f:
            json.dump(sorted(kinds), f)
    except Exception:
        pass
    v.cov["inputs_not_accepted_skipped"] = skipped
    v.cov["samples"] = [{"source": meta[r["id"]]["text"][:300], "mode": r["mode"], "tokens": sum(1 for n in r["iter"] if r["kinds"][n - 1] == "Locate"), "text_len": r["len"]} for r in recs[:3]]
    v.assumptions = ["the preprocessed text is taken from preprocess_str, the tree from parse_*_pp on it (C20 ties the other entry points to this)",
                     "reach is limited to the productions the corpus and the Grammar specification exercise (reached_node_kinds)"]
    return v.finish(rule="repository corpus (both grammars) + layout variants + Grammar sentences, strict and incomplete, junk-suffixed; "
                         "non-trivial = distinct accepted sources", exhaustive=False)


def replay(path):
    print(json.dumps(json.load(open(path)), indent=1))
    return 0
