"""C09 — recursion is bounded: cycles end in ExceedRecursiveLimit, legal depths work.

MC   MC_PreprocInc (Limit = 3): for every "who uses/includes whom" graph over 3 files and 2 macros
     (macros may expand to `include): machine = big-step reference (structural Include wrapping,
     threaded depth counters), DepthBounded, StackBounded, StepBound, and the liveness property
     Terminates under weak fairness; refutation config DepthNotThreaded must show the unbounded stack.
GEN  the graphs exported by TLC, plus shapes scaled to the real limit (chains of depth
     1,15,63,64,65,66,130; cycles of length 1..4; macro->include->macro mixes).
TV   Preproc_Trace with Limit = 64: Ok with the fully expanded text, or ExceedRecursiveLimit under
     exactly the predicted number of Include wrappers.  Cases run in isolated processes with a
     bounded stack budget, so a stack overflow is an observable crash outcome.
"""
import random, json
import vlib, pp, ppcheck

DEPTHS = [1, 2, 15, 63, 64, 65, 66, 130]


def macro_chain(d):
    items = []
    for i in range(1, d + 1):
        body = [pp.bt("use", "C%d" % (i + 1))] if i < d else [pp.bt("lit", "leaf")]
        items += [pp.define("C%d" % i, None, body), pp.nl()]
    items += [pp.tok("a"), pp.use("C1"), pp.tok("z"), pp.nl()]
    return {"files": {"top.sv": items}, "top": "top.sv"}


def include_chain(d):
    files = {}
    for i in range(0, d + 1):
        name = "top.sv" if i == 0 else "i%d.svh" % i
        items = [pp.tok("a%d" % i), pp.nl()]
        if i < d:
            items += [pp.inc("i%d.svh" % (i + 1)), pp.nl()]
        items += [pp.tok("z%d" % i), pp.nl()]
        files[name] = items
    return {"files": files, "top": "top.sv"}


def macro_cycle(c):
    items = []
    for i in range(1, c + 1):
        items += [pp.define("R%d" % i, None, [pp.bt("lit", "r%d" % i), pp.bt("use", "R%d" % (i % c + 1))]), pp.nl()]
    items += [pp.tok("a"), pp.use("R1"), pp.tok("z"), pp.nl()]
    return {"files": {"top.sv": items}, "top": "top.sv"}


def include_cycle(c):
    files = {}
    for i in range(0, c):
        name = "top.sv" if i == 0 else "y%d.svh" % i
        nxt = "top.sv" if (i + 1) % c == 0 else "y%d.svh" % ((i + 1) % c)
        files[name] = [pp.tok("a%d" % i), pp.nl(), pp.inc(nxt), pp.nl(), pp.tok("z%d" % i), pp.nl()]
    return {"files": files, "top": "top.sv"}


def mixed_cycle(c):
    """macro M_i expands to `include of file g_i, which uses M_(i+1) (mod c)"""
    files = {}
    top = []
    for i in range(1, c + 1):
        top += [pp.define("X%d" % i, None, [pp.bt("inc", "g%d.svh" % i)]), pp.nl()]
        files["g%d.svh" % i] = [pp.tok("g%d" % i), pp.nl(), pp.use("X%d" % (i % c + 1)), pp.nl(), pp.tok("h%d" % i), pp.nl()]
    top += [pp.tok("a"), pp.nl(), pp.use("X1"), pp.nl(), pp.tok("z"), pp.nl()]
    files["top.sv"] = top
    return {"files": files, "top": "top.sv"}


def mixed_chain(d):
    """alternating macro / include chain of total depth d in each counter"""
    files = {}
    top = []
    for i in range(1, d + 1):
        top += [pp.define("Y%d" % i, None, [pp.bt("inc", "k%d.svh" % i)]), pp.nl()]
        body = [pp.tok("k%d" % i), pp.nl()]
        if i < d:
            body += [pp.use("Y%d" % (i + 1)), pp.nl()]
        files["k%d.svh" % i] = body
    top += [pp.use("Y1"), pp.nl(), pp.tok("z"), pp.nl()]
    files["top.sv"] = top
    return {"files": files, "top": "top.sv"}


def siblings(n, how, tail):
    """breadth is not depth: n sibling includes / usages in ONE text (each returns before the next starts),
    followed by a legal chain of depth `tail` in the same text.  how: 'minc' = `include `HDR (file named
    through a macro), 'inc' = `include "h.svh", 'use' = usage of a macro whose body uses another one,
    'mixinc' = usage of a macro that expands to an `include"""
    files = {"h.svh": [pp.tok("h"), pp.nl()]}
    top = [pp.define("HDR", None, [pp.bt("str", '"h.svh"')]), pp.nl(),
           pp.define("LEAF", None, [pp.bt("lit", "leaf")]), pp.nl(), pp.define("MID", None, [pp.bt("use", "LEAF")]), pp.nl(),
           pp.define("MI", None, [pp.bt("inc", "h.svh")]), pp.nl()]
    for i in range(n):
        if how == "minc":
            top += [pp.inc("HDR", form=2), pp.nl()]
        elif how == "inc":
            top += [pp.inc("h.svh", form=i % 2), pp.nl()]
        elif how == "use":
            top += [pp.use("MID"), pp.nl()]
        else:
            top += [pp.use("MI"), pp.nl()]
    if tail:
        ch = macro_chain(tail)["files"]["top.sv"] if how in ("minc", "use") else None
        if ch is not None:
            top += ch
        else:
            inc = include_chain(tail)["files"]
            for k, its in inc.items():
                if k == "top.sv":
                    top += its
                else:
                    files[k] = its
    files["top.sv"] = top
    return {"files": files, "top": "top.sv"}


def wide_tree(k):
    """breadth at two levels: top includes m.svh k times, m.svh includes h.svh k times - k + k*k files are opened, none deeper
    than level 2 (round-6 seeded change: a per-thread budget of 4096 opened files reported ExceedRecursiveLimit)"""
    top, mid = [], []
    for i in range(k):
        top += [pp.inc("m.svh", form=i % 2), pp.nl()]
        mid += [pp.inc("h.svh", form=0), pp.nl()]
    return {"files": {"top.sv": top + [pp.tok("end"), pp.nl()], "m.svh": mid, "h.svh": [pp.tok("h"), pp.nl()]}, "top": "top.sv"}


def group_cycle(c):
    """macro cycle that closes INSIDE the parenthesised group written behind a body-less, formal-less macro:
    `define E / `define G1 `E (`G2) / ... / `define Gc `E (`G1) / `G1   (the group is ordinary text that is rescanned)"""
    items = [pp.define("E", None, None), pp.nl()]
    for i in range(1, c + 1):
        items += [pp.define("G%d" % i, None, [pp.bt("use", "E", a=[[[pp.bt("use", "G%d" % (i % c + 1))]]])]), pp.nl()]
    items += [pp.tok("a"), pp.use("G1"), pp.tok("z"), pp.nl()]
    return {"files": {"top.sv": items}, "top": "top.sv"}


def group_chain(d):
    """legal chain of depth d through such groups, ending in a leaf"""
    items = [pp.define("E", None, None), pp.nl()]
    for i in range(1, d + 1):
        inner = [pp.bt("use", "H%d" % (i + 1))] if i < d else [pp.bt("lit", "leaf")]
        items += [pp.define("H%d" % i, None, [pp.bt("use", "E", a=[[inner]])]), pp.nl()]
    items += [pp.tok("a"), pp.use("H1"), pp.tok("z"), pp.nl()]
    return {"files": {"top.sv": items}, "top": "top.sv"}


def name_cycle(c):
    """`include `X1 where the macros that name the file form a cycle of length c"""
    items = []
    for i in range(1, c + 1):
        items += [pp.define("X%d" % i, None, [pp.bt("use", "X%d" % (i % c + 1))]), pp.nl()]
    items += [pp.tok("a"), pp.nl(), pp.inc("X1", form=2), pp.nl(), pp.tok("z"), pp.nl()]
    return {"files": {"top.sv": items, "h.svh": [pp.tok("h"), pp.nl()]}, "top": "top.sv"}


def name_chain(d):
    """`include `N1, N1 -> N2 -> ... -> Nd = "h.svh": legal up to the limit"""
    items = []
    for i in range(1, d + 1):
        body = [pp.bt("use", "N%d" % (i + 1))] if i < d else [pp.bt("str", '"h.svh"')]
        items += [pp.define("N%d" % i, None, body), pp.nl()]
    items += [pp.tok("a"), pp.nl(), pp.inc("N1", form=2), pp.nl(), pp.tok("z"), pp.nl()]
    return {"files": {"top.sv": items, "h.svh": [pp.tok("h"), pp.nl()]}, "top": "top.sv"}


def run(tier, seed):
    v = vlib.Verdict("C09", tier, seed)
    vlib.build_harness()
    rng = random.Random(seed)
    quick = tier == "quick"
    r = vlib.tlc_model_check("MC_PreprocInc.tla", "MC_PreprocInc_graph.cfg", workers=8, extra=["-coverage", "1"])
    v.add_mc("MC_PreprocInc_graph", r, "MachineEqualsRef, DepthBounded, StackBounded, StepBound (Limit=3)")
    r = vlib.tlc_model_check("MC_PreprocInc.tla", "MC_PreprocInc_graph_live.cfg", workers=8)
    v.add_mc("MC_PreprocInc_graph_live", r, "liveness: Terminates under weak fairness")
    r = vlib.tlc_model_check("MC_PreprocInc.tla", "MC_PreprocInc_refute_depth.cfg", workers=8, expect_violation=True)
    v.add_mc("MC_PreprocInc_refute_depth", r, "refutation: depth counters not threaded across macro/include frames => unbounded stack (D5 mechanism)")
    ex, r = vlib.tlc_export("MC_PreprocInc.tla", "MC_PreprocInc_gen_graph.cfg", workers=4)
    v.add_mc("MC_PreprocInc_gen_graph", r, "GEN export %d graphs" % len(ex))
    rng.shuffle(ex)
    cases = []
    by_id = {}
    nid = 0
    for e in ex[: (1500 if quick else len(ex))]:
        nid += 1
        cases.append(ppcheck.case_from_env_json(e, nid))
        by_id[str(nid)] = {"kind": "graph"}
    fam = []
    for d in DEPTHS:
        fam += [("macro_chain", d, macro_chain(d)), ("include_chain", d, include_chain(d))]
        if d <= 66:
            fam.append(("mixed_chain", d, mixed_chain(d)))
    for c in (1, 2, 3, 4):
        fam += [("macro_cycle", c, macro_cycle(c)), ("include_cycle", c, include_cycle(c)), ("mixed_cycle", c, mixed_cycle(c))]
    for c in (1, 2, 3):
        fam.append(("group_cycle", c, group_cycle(c)))
        fam.append(("name_cycle", c, name_cycle(c)))
    for d in (1, 2, 3, 62, 63, 64, 65, 66):
        fam.append(("name_chain", d, name_chain(d)))
    for d in (1, 2, 15, 30, 31, 32, 33, 63, 64, 65):
        fam.append(("group_chain", d, group_chain(d)))
    for how in ("minc", "inc", "use", "mixinc"):
        for (n, tail) in ((70, 0), (40, 30), (130, 63)):
            fam.append(("siblings_" + how, "%d+%d" % (n, tail), siblings(n, how, tail)))
    import copy
    for (kind, n, c) in fam:
        nid += 1
        c["id"] = nid
        cases.append(c)
        by_id[str(nid)] = {"kind": kind, "n": n}
        if kind in ("include_chain", "mixed_chain", "include_cycle", "name_chain", "macro_chain") and (n in (1, 2, 3) or n >= 62):
            # the same shape through the STRING entry point: the limit is the same for both
            nid += 1
            c2 = copy.deepcopy(c)
            c2["id"] = nid
            c2["fn"] = "preprocess_str"
            cases.append(c2)
            by_id[str(nid)] = {"kind": kind + "/str", "n": n}
    vlib.log("C09: %d cases" % len(cases))
    records, hcases, results = ppcheck.build_run_records(cases, "c09", check_origins=False, limit_ms=60000)
    for c, h in zip(cases, hcases):
        by_id[str(c["id"])]["files"] = h["files"] if len(json.dumps(h["files"])) < 3000 else "(%d files)" % len(h["files"])
    v.cov["evaluations"] = len(cases)
    hist = {}
    for rr, c in zip(records, cases):
        o = rr["obs"]
        k = o["outcome"] if o["outcome"] != "err" else "err:" + json.dumps(o["err"])[:80]
        hist[k] = hist.get(k, 0) + 1
    v.cov["outcome_histogram"] = dict(sorted(hist.items(), key=lambda x: -x[1])[:12])
    v.cov["distinct_nontrivial"] = sum(1 for rr in records if rr["obs"]["outcome"] == "err" and "ExceedRecursiveLimit" in json.dumps(rr["obs"]["err"])) + len(fam)
    v.cov["samples"] = [{"kind": by_id[str(c["id"])]["kind"], "n": by_id[str(c["id"])].get("n"), "outcome": rr["obs"]["outcome"], "err": rr["obs"]["err"],
                         "tokens": len(rr["obs"]["toks"])} for c, rr in list(zip(cases, records))[-12:]]
    # breadth at two levels (k + k*k opened files, nesting level 2): executed at multiplicity k, judged by the specification
    # on the same shape at multiplicity 2 (record kind "shape"), through the file and the string entry point
    small = wide_tree(2)
    small["id"] = "w2"
    senv = ppcheck.make_env(small)[0]
    wc = []
    for k in ((66, 70) if quick else (64, 66, 70, 80, 100, 128)):
        for fn in ("preprocess", "preprocess_str"):
            c = wide_tree(k)
            c["id"] = "w%d%s" % (k, fn[10:])
            if fn == "preprocess_str":
                c["fn"] = fn
            wc.append((k, c))
    wrecs, whc, wres = ppcheck.build_run_records([c for _, c in wc], "c09w", check_origins=False, limit_ms=120000)
    for (k, c), rr in zip(wc, wrecs):
        o = rr["obs"]
        records.append({"id": str(c["id"]), "kind": "shape", "env": senv, "k": k, "leaf": 1, "tail": 1, "ntoks": len(o["toks"]),
                        "obs": {"outcome": o["outcome"], "err": o["err"]}})
        by_id[str(c["id"])] = {"kind": "wide_tree" + ("/str" if c.get("fn") else ""), "n": k, "files": "(top.sv: %d x `include m.svh; m.svh: %d x `include h.svh)" % (k, k)}
    v.cov["wide_tree_cases"] = len(wc)
    ppcheck.validate_with_deviations(v, "Preproc_Trace", records, by_id, "c09",
                                     lambda rid: "%s n=%s %s" % (by_id[rid]["kind"], by_id[rid].get("n"), json.dumps(by_id[rid].get("files"))[:300]))
    v.assumptions = ["renderer/tokeniser of lib/pp.py", "worker stack budget 512 MB: a deeper native recursion is reported as crash"]
    return v.finish(rule="all include/usage graphs of MC_PreprocInc (3 files, 2 macros, macros expanding to includes) + chains of depth "
                         "%s and cycles of length 1..4 for macros, includes and macro->include mixes; non-trivial = runs ending in "
                         "ExceedRecursiveLimit + scaled families" % DEPTHS, exhaustive=False)


def replay(path):
    print(json.dumps(json.load(open(path)), indent=1))
    return 0
