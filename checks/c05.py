"""C05 — macro usages expand per IEEE 22.5.1 and misuse is reported by name.

MC   MC_PreprocMacro: frame-stack machine = big-step reference ExpandRef for every
     (formal list, body over the alphabet, argument list, redefinition) of the universe.
GEN  the same universe exported by TLC, rendered, executed by the real preprocessor;
     plus seeded larger programs (more formals, nested brackets/strings in actuals, nesting).
TV   Preproc_Trace: tokens (after pasting), error variant + payload, define table, origins.
Byte level: MacroBody (transcription of split_text and the substitution loop = the IEEE reading of the body's lexemes,
     for every body text over a 9-character alphabet up to the bound; refutation configs for the four repaired
     defects D9, D23, D24, D26); every body text of the bound and seeded longer ones are expanded by the real
     preprocessor and each substitution event (hook "subst": stored macro text, bound formals, substituted text)
     is validated by MacroBody_Trace - as are the events of all the programs above.
"""
import random, json
import vlib, pp, ppcheck


def btoks(ts):
    out = []
    for t in ts:
        if t["k"] == "def":
            out.append({"k": "def", "n": t["n"], "a": btoks(t["a"]), "g": False, "s": t.get("s", "")})
            continue
        if t["k"] == "cond":
            out.append({"k": "cond", "n": t["n"], "s": t["s"], "g": False,
                        "a": [{"k": "grp", "n": "", "a": btoks(g["a"]), "g": False, "s": ""} for g in t["a"]]})
            continue
        if t["k"] == "use":
            a = [] if not t["a"] else [[btoks(x) for x in t["a"][0]]]
            out.append({"k": "use", "n": t["n"], "a": a, "g": bool(t.get("g"))})
        elif t["k"] == "bqs":
            out.append({"k": "bqs", "n": "", "a": btoks(t["a"]), "g": False})
        else:
            out.append({"k": t["k"], "n": t["n"], "a": [], "g": bool(t.get("g"))})
    return out


def mk_define(name, fl, body, hasf=None):
    formals = None
    if fl:
        formals = [(f["n"], btoks(f["d"][0]["toks"]) if f["d"] else None) for f in fl]
    return pp.define(name, formals, btoks(body) if body else None)


def mk_use(name, al):
    if not al:
        return pp.use(name)
    return pp.use(name, [btoks(x) for x in al[0]])


def program_from_export(e):
    items = [
        pp.define("N", None, [pp.bt("lit", "n1")]), pp.nl(),
        pp.define("N1", [("p", None)], [pp.bt("lit", "<"), pp.bt("id", "p"), pp.bt("lit", ">")]), pp.nl(),
        mk_define("M", e["fl"], e["body"]), pp.nl(),
        mk_use("M", e["al"]), pp.nl(),
    ]
    if e["redef"]:
        items += [pp.define("N", None, [pp.bt("lit", "n2")]), pp.nl()]
    items += [mk_use("M", e["al"]), pp.nl(), pp.tok("end"), pp.nl()]
    return items


# ---------------------------------------------------------------------------------------------
# seeded larger programs (validated by the same trace spec)

WORDS = ["alpha", "b2", "c_3", "dd", "e$e", "f0f", "gg9", "hh", "x1", "xx", "_x", "yy"]
PUNCT = ["+", "-", "*", ";", "=", "&", "|", "^", "?", ":"]


def rand_actual(rng, depth, macros):
    n = rng.randint(1, 4)
    out = []
    for _ in range(n):
        r = rng.random()
        if r < 0.45:
            out.append(pp.bt("lit", rng.choice(WORDS)))
        elif r < 0.6:
            out.append(pp.bt("lit", rng.choice(PUNCT)))
        elif r < 0.7:
            out.append(pp.bt("str", '"s%d,%d"' % (rng.randint(0, 9), rng.randint(0, 9))))
        elif r < 0.85 and depth < 2:
            o, c = rng.choice([("(", ")"), ("[", "]"), ("{", "}")])
            if out and out[-1]["k"] == "use" and not out[-1]["a"]:
                o, c = "[", "]"     # "(" right after `M would be read as M's argument list
            out.append(pp.bt("lit", o))
            out += rand_actual(rng, depth + 1, macros)
            if rng.random() < 0.5:
                out.append(pp.bt("lit", ","))
                out += rand_actual(rng, depth + 1, macros)
            out.append(pp.bt("lit", c))
        elif macros and depth < 2 and not (out and out[-1]["k"] == "str"):
            m = rng.choice(macros)
            out.append(rand_use_bt(rng, m, depth + 1, macros))
        else:
            out.append(pp.bt("lit", str(rng.randint(0, 99))))
    return out


def rand_use_bt(rng, m, depth, macros):
    name, nform, ndef, simple0 = m
    if nform == 0:
        if rng.random() < 0.15:
            # an argument list written behind a macro WITHOUT formals is ordinary text that survives (rescanned)
            return pp.bt("use", name, a=[[[pp.bt("lit", rng.choice(WORDS))], [pp.bt("lit", rng.choice(WORDS)), pp.bt("lit", "+"), pp.bt("lit", "1")]][: rng.randint(1, 2)]])
        return pp.bt("use", name)
    k = rng.randint(max(0, nform - ndef), nform) if rng.random() < 0.9 else rng.randint(0, nform)
    acts = []
    for i in range(k):
        if i == 0 and simple0:
            acts.append([pp.bt("lit", rng.choice(WORDS))])   # bound inside `"...`" or next to ``: single plain token
        else:
            acts.append([] if rng.random() < 0.15 else rand_actual(rng, depth, [x for x in macros if x[0] < name]))
    if k == 0:
        acts = [[]]
    return pp.bt("use", name, a=[acts])


def rand_program(rng):
    """a few macro definitions (later ones may use earlier ones), then usages"""
    items = []
    macros = []
    nm = rng.randint(1, 4)
    for i in range(nm):
        name = "M%d" % i
        nform = rng.choice([0, 0, 1, 2, 3, 5])
        formals = []
        ndef = 0
        for j in range(nform):
            has_d = rng.random() < 0.3 and (ndef > 0 or j >= nform - 2)
            if ndef > 0:
                has_d = True
            if has_d:
                ndef += 1
            formals.append(("f%d" % j, [pp.bt("lit", "dv%d%d" % (i, j))] if has_d else None))
        body = []
        simple0 = False
        blen = rng.randint(0, 7)
        prev_plain = False
        while len(body) < blen:
            r = rng.random()
            # what stands in front, line continuations aside: directly behind a string literal no usage, directive or formal
            # (which may be bound to a usage) is placed - that is D2 territory, and with a parenthesised group behind a
            # formal-less usage the token-level deviation is not exact
            sig = [t for t in body if t["k"] != "cont"]
            after_str = bool(sig) and sig[-1]["k"] in ("str", "bqs")
            if after_str and r < 0.3:
                r = 0.45          # a plain word instead
            if r < 0.3 and nform:
                body.append(pp.bt("id", "f%d" % rng.randrange(nform))); prev_plain = False
            elif r < 0.5:
                body.append(pp.bt("lit", rng.choice(WORDS))); prev_plain = True
            elif r < 0.6:
                body.append(pp.bt("lit", rng.choice(PUNCT))); prev_plain = False
            elif r < 0.68 and prev_plain and len(body) < blen - 1:
                body.append(pp.bt("paste"))
                if nform and rng.random() < 0.5:
                    body.append(pp.bt("id", "f0")); simple0 = True
                else:
                    body.append(pp.bt("lit", rng.choice(WORDS[:4])))
                prev_plain = True
            elif r < 0.75:
                body.append(pp.bt("str", rng.choice(['"f0 %s"', '"f0 // %s"', '"/* f0 */ %s"', '"`M0 `` %s"', '"http://f0/%s"']) % rng.choice(WORDS))); prev_plain = False
            elif r < 0.85 and macros and not after_str:
                # (never directly after a string literal: known finding D2, decided by PpLex/C06)
                body.append(rand_use_bt(rng, rng.choice(macros), 1, macros)); prev_plain = False
            elif r < 0.88:
                body.append(pp.bt("cont")); prev_plain = False
            elif r < 0.885 and not after_str:
                # an object-like `define inside a body: it ends its line, so a continuation follows
                body.append({"k": "def", "n": "M%d" % rng.randrange(4), "a": [pp.bt("lit", "in%d" % rng.randint(0, 9))], "g": False, "s": ""})
                body.append(pp.bt("cont")); body.append(pp.bt("lit", rng.choice(WORDS))); prev_plain = True
            elif r >= 0.965 and body and body[-1]["k"] == "lit":
                # a conditional inside a body: chosen when the expansion is rescanned (on a macro of this program, which an
                # earlier part of the body or of the file may have undefined).  Directly behind a plain token only, and no
                # formal directly in front of `else / `endif: a string there would be D2 territory
                def branch():
                    b = []
                    for _ in range(rng.randint(0, 3)):
                        if nform and rng.random() < 0.4:
                            b += [pp.bt("id", "f%d" % rng.randrange(nform)), pp.bt("lit", rng.choice(WORDS))]
                        elif macros and rng.random() < 0.3:
                            b += [rand_use_bt(rng, rng.choice(macros), 1, macros), pp.bt("lit", rng.choice(WORDS))]
                        else:
                            b.append(pp.bt("lit", rng.choice(WORDS)))
                    return b
                body.append({"k": "cond", "n": "M%d" % rng.randrange(4), "s": rng.choice(["ifdef", "ifndef"]), "g": False,
                             "a": [{"k": "grp", "n": "", "a": branch(), "g": False, "s": ""}, {"k": "grp", "n": "", "a": branch(), "g": False, "s": ""}]})
                prev_plain = False
            elif r < 0.9 and not after_str:
                # a directive inside a body is executed when the expansion is rescanned
                body.append(pp.bt("undef", "M%d" % rng.randrange(4)) if rng.random() < 0.8 else pp.bt("undefall")); prev_plain = False
            elif r < 0.95 and nform:
                body.append({"k": "bqs", "n": "", "a": [pp.bt("lit", "q "), pp.bt("id", "f0"), pp.bt("lit", " r")], "g": False}); prev_plain = False; simple0 = True
            else:
                body.append(pp.bt("lit", str(rng.randint(0, 9)))); prev_plain = True
        # a body may not end in a continuation or `` (kept simple)
        while body and body[-1]["k"] in ("cont", "paste"):
            body.pop()
        items += [pp.define(name, formals if nform else None, body if body else None), pp.nl()]
        if simple0 and formals and formals[0][1] is not None:
            formals[0] = (formals[0][0], [pp.bt("lit", "dv0")])
        macros.append((name, nform, ndef, simple0))
    nu = rng.randint(1, 4)
    for _ in range(nu):
        items.append(pp.tok("pre%d" % rng.randint(0, 99)))
        m = rng.choice(macros)
        u = rand_use_bt(rng, m, 0, macros)
        # actuals inside `"...`" must be single plain tokens (Appendix A.4): keep f0 simple for such macros
        items.append(pp.item("use", u["n"], a=u["a"]))
        if u["a"] and rng.random() < 0.2:
            items[-1]["sp"] = True              # `M (args): white space in front of the argument list
        items.append(pp.tok("post%d" % rng.randint(0, 99)))
        items.append(pp.nl())
        if rng.random() < 0.2:
            r = rng.choice(macros)
            items += [pp.define(r[0], None, [pp.bt("lit", "redef%d" % rng.randint(0, 9))]) if r[1] == 0 else pp.undef(r[0]), pp.nl()]
            if r[1] != 0:
                macros = [x for x in macros if x[0] != r[0]] or macros
    return items


def uses_bqs_with_complex_actual(items):
    """generator restriction: a formal used inside `"...`" must be bound to a single plain token"""
    return False


def chars(s):
    """byte view as a list of one-character strings; bytes >= 128 all become '~' (one class for the machine)"""
    return [chr(b) if b < 128 else "~" for b in s.encode()]


BODY_PIECES = ["x", "x$", "x$y", "y$x", "$x", "xy", "x1", "1x", "_x", "y", " ", "  ", "\t", "+", "(", ")", ",", ";", "``", "`\"", "`\\`\"", "`", "\"", "\"x\"", "\"a\\\"x\"",
               "\"x`y\"", "\\\n", "\\\r\n", "\\", "\\x ", "\\y+ ", "//", "// x", "/", "$", "'", "8'hx", "é", "[x]", "{x,y}", "x.x", "`y", "`N", "#"]


def seeded_body(rng):
    return "".join(rng.choice(BODY_PIECES) for _ in range(rng.randint(1, 14)))


def macro_body_part(v, quick, rng, extra_hooks):
    """MacroBody: the substituted text of a body at byte level (transcription of split_text = IEEE reading, for every
    body over the alphabet; the real substitution events against the reading)"""
    tag = "quick" if quick else "thorough"
    r = vlib.tlc_model_check("MC_MacroBody.tla", "MC_MacroBody_%s.cfg" % tag, workers=8, extra=["-coverage", "1"])
    v.add_mc("MC_MacroBody_" + tag, r, "MachineEqualsRef, PlainCopied for every body text of the bound")
    if not quick:
        r = vlib.tlc_model_check("MC_MacroBody.tla", "MC_MacroBody_thorough_wide.cfg", workers=8)
        v.add_mc("MC_MacroBody_thorough_wide", r, "MachineEqualsRef with CR and a digit in the alphabet")
    for dev in ("dollar", "leadbs", "noesc", "cmtglue"):
        r = vlib.tlc_model_check("MC_MacroBody.tla", "MC_MacroBody_refute_%s.cfg" % dev, workers=4, expect_violation=True)
        v.add_mc("MC_MacroBody_refute_" + dev, r, "refutation: the behaviour before the repair contradicts the reading")
    r = vlib.tlc_model_check("MC_MacroActual.tla", "MC_MacroActual_%s.cfg" % ("quick" if quick else "thorough"), workers=8)
    v.add_mc("MC_MacroActual", r, "ClosedInv, TrailingInv, MinimalInv for every well-formed raw argument text of the bound")
    r = vlib.tlc_model_check("MC_MacroActual.tla", "MC_MacroActual_refute_trim.cfg", workers=2, expect_violation=True)
    v.add_mc("MC_MacroActual_refute_trim", r, "refutation: plain trim_end binds a value that ends inside a one-line comment (D27)")
    cov, r = vlib.tlc_export("MC_MacroBody.tla", "MC_MacroBody_cover%d.cfg" % (5 if quick else 6), tag="TRANSITIONS", workers=1)
    v.add_mc("MC_MacroBody_cover", r, "distinct <<control state, branch>> pairs of the machine exercised at the bound: %s" % cov)
    v.cov["macro_body_machine_transitions"] = cov
    ex, r = vlib.tlc_export("MC_MacroBody.tla", "MC_MacroBody_gen%d.cfg" % (4 if quick else 5), workers=4)
    v.add_mc("MC_MacroBody_gen", r, "GEN export: %d body texts" % len(ex))
    bodies = ["".join(x) for x in ex]
    nex = len(bodies)
    bodies += [seeded_body(rng) for _ in range(4000 if quick else 60000)]
    hc = []
    for i, b in enumerate(bodies):
        if i % 3 == 0:
            src = "`define M(x, x$=C) %s\n`M(AB)\n" % b
        elif i % 3 == 1:
            src = "`define M(x,x$)%s\n`M( AB , C )\n" % (b if b[:1] in " \t\\" else " " + b)
        else:
            src = "`define M(x$ = C, x = AB) %s\n`M(,)\n" % b
        hc.append({"id": i, "calls": [{"fn": "preprocess_str", "path": "t.sv", "text": src, "hooks": ["subst"]}]})
    res = vlib.run_cases(hc, tag="c05b")
    recs, by = [], {}
    for c, rr in zip(hc, res):
        for k, h in enumerate(rr["results"][0].get("hooks") or []):
            if h["k"] != "subst":
                continue
            st = h["s"]
            rid = "b%d.%d" % (c["id"], k)
            recs.append({"id": rid, "kind": "subst", "body": chars(st[0]), "replaced": chars(st[1]),
                         "formals": [[chars(st[j]), chars(st[j + 1])] for j in range(2, len(st), 2)]})
            by[rid] = {"source": c["calls"][0]["text"], "body": st[0], "replaced": st[1], "formals": st[2:]}
    for rid, h in extra_hooks:
        st = h["s"]
        recs.append({"id": rid, "kind": "subst", "body": chars(st[0]), "replaced": chars(st[1]),
                     "formals": [[chars(st[j]), chars(st[j + 1])] for j in range(2, len(st), 2)]})
        by[rid] = {"body": st[0], "replaced": st[1], "formals": st[2:]}
    bad, stats = vlib.tlc_validate("MacroBody_Trace.tla", "MacroBody_Trace.cfg", recs, tag="c05b")
    v.add_tv("MacroBody_Trace", stats, len(recs))
    drift = [k for k in bad if k.startswith("DRIFT")]
    v.cov["macro_body_events"] = len(recs)
    v.cov["macro_body_exhaustive_texts"] = nex
    v.cov["macro_body_events_from_programs"] = len(extra_hooks)
    for rid, reasons in bad.items():
        v.violation("macro text %r with %r: %s" % (by[rid]["body"][:200], by[rid]["formals"], "; ".join(reasons)[:500]), by[rid])


def run(tier, seed):
    v = vlib.Verdict("C05", tier, seed)
    vlib.build_harness()
    rng = random.Random(seed)
    quick = tier == "quick"
    r = vlib.tlc_model_check("MC_PreprocMacro.tla", "MC_PreprocMacro_%s.cfg" % ("quick" if quick else "thorough"), workers=8,
                             extra=["-coverage", "1"], timeout=3000)
    v.add_mc("MC_PreprocMacro_" + ("quick" if quick else "thorough"), r, "MachineEqualsRef, Surrounding, StepBound")
    ex, r = vlib.tlc_export("MC_PreprocMacro.tla", "MC_PreprocMacro_%s.cfg" % ("gen2" if quick else "gen3"), workers=4, timeout=3000)
    v.add_mc("MC_PreprocMacro_gen", r, "GEN export: %d programs" % len(ex))
    cases = []
    by_id = {}
    nid = 0
    for e in ex:
        nid += 1
        items = program_from_export(e)
        cases.append({"id": nid, "files": {"top.sv": items}, "top": "top.sv", "fn": "preprocess" if nid % 2 else "preprocess_str"})
        by_id[str(nid)] = {"export": e}
    nrand = 1500 if quick else 20000
    for i in range(nrand):
        nid += 1
        items = rand_program(rng)
        cases.append({"id": nid, "files": {"top.sv": items}, "top": "top.sv", "fn": "preprocess"})
        if rng.random() < 0.15:
            cases[-1]["nl"] = "\r\n"          # CRLF line ends
        by_id[str(nid)] = {"seeded": i}
    vlib.log("C05: %d cases (%d exported by TLC, %d seeded)" % (len(cases), len(ex), nrand))
    records, hcases, results = ppcheck.build_run_records(cases, "c05", check_origins=False, hooks=["subst"])
    extra_hooks = []
    for c, rr in zip(cases, results):
        for k, h in enumerate(rr["results"][0].get("hooks") or []):
            if h["k"] == "subst":
                extra_hooks.append(("p%s.%d" % (c["id"], k), h))
    for c, h in zip(cases, hcases):
        by_id[str(c["id"])]["source"] = h["files"]["top.sv"]
    v.cov["evaluations"] = len(cases)
    v.cov["distinct_nontrivial"] = len({by_id[str(c["id"])]["source"] for c in cases})
    outcomes = {}
    for rr in records:
        k = rr["obs"]["outcome"] if rr["obs"]["outcome"] != "err" else "err:" + str(rr["obs"]["err"][0])
        outcomes[k] = outcomes.get(k, 0) + 1
    v.cov["outcome_histogram"] = outcomes
    step = max(1, len(cases) // 3)
    v.cov["samples"] = [{"source": by_id[str(c["id"])]["source"], "observed": r["obs"]["outcome"],
                         "tokens": [t["t"] for t in r["obs"]["toks"]], "err": r["obs"]["err"]}
                        for c, r in list(zip(cases, records))[::step][:4]]
    ppcheck.validate_with_deviations(v, "Preproc_Trace", records, by_id, "c05",
                                     lambda rid: "source %r" % by_id[rid]["source"][:300])
    macro_body_part(v, quick, rng, extra_hooks)
    v.assumptions = ["renderer/tokeniser of lib/pp.py", "TLC, Json module",
                     "generator restrictions of DESIGN.md Appendix A.3-A.5 (no surplus actuals, `` only between plain tokens, plain-token actuals inside `\"...`\")"]
    return v.finish(rule="TLC-exported universe of MC_PreprocMacro (formal lists x bodies<=%d x argument lists x redefinition) plus %d seeded "
                         "larger define/usage programs; distinct = distinct rendered source" % (2 if quick else 3, nrand),
                    exhaustive=False)


def replay(path):
    obj = json.load(open(path))
    print(json.dumps(obj, indent=1))
    return 0
