"""C11 — the returned define table is exact and threads across files as one unit.

MC   MC_PreprocRel: ConcatEquiv for every pair of programs of the mixed universe; MC_PreprocCond:
     table of the machine = table of the declarative reference (DefsRef) for every program.
GEN  exported pairs and seeded pairs/triples of mixed files (define/undef/redefine/undefineall
     patterns, function-like macros with defaults, caller-supplied entries).
TV   Preproc_Trace: each file's returned table against the specification (formals, default texts,
     body text, caller-supplied entries, SV_COV_* left aside) and the relation
     preprocess(B, table returned for A) ~ preprocess(A o B): same text for the B part, same final table.
"""
import random, json, copy
import vlib, pp, ppcheck, gen


def run(tier, seed):
    v = vlib.Verdict("C11", tier, seed)
    vlib.build_harness()
    rng = random.Random(seed)
    quick = tier == "quick"
    r = vlib.tlc_model_check("MC_PreprocRel.tla", "MC_PreprocRel_%s.cfg" % ("quick" if quick else "thorough"), workers=8, extra=["-coverage", "1"], timeout=3000)
    v.add_mc("MC_PreprocRel", r, "ConcatEquiv (also StripOnlyComments, Fixpoint)")
    r = vlib.tlc_model_check("MC_PreprocCond.tla", "MC_PreprocCond_%s.cfg" % ("quick" if quick else "thorough"), workers=8)
    v.add_mc("MC_PreprocCond", r, "MachineEqualsRef includes: returned table = DefsRef")
    ex, r = vlib.tlc_export("MC_PreprocRel.tla", "MC_PreprocRel_gen2.cfg", workers=4)
    v.add_mc("MC_PreprocRel_gen2", r, "GEN export %d program pairs" % len(ex))
    rng.shuffle(ex)
    groups = []     # list of file-item lists (2 or 3 files) + predef
    for e in ex[: (2000 if quick else len(ex))]:
        groups.append(([[dict(i) for i in e["a"]], [dict(i) for i in e["b"]]], [], "pair", {}))
    for i in range(1200 if quick else 15000):
        u = gen.U()
        n = 3 if rng.random() < 0.25 else 2
        macros = {}
        gen.NAMES = gen.NEAR_PREDEFINED if rng.random() < 0.25 else ["A", "B", "C"]      # user macros named like the predefined coverage constants
        fs = [gen.mixed_program(rng, u, allow_pos=False, macros=macros, size=rng.randint(1, 7)) for _ in range(n)]
        gen.NAMES = ["A", "B", "C"]
        predef = []
        if rng.random() < 0.4:
            predef.append(pp.predef_entry("C", none=rng.random() < 0.5, body=[pp.bt("lit", "cv")]))
        if rng.random() < 0.2:
            predef.append(pp.predef_entry("PF", formals=[("q", [pp.bt("lit", "qd")])], body=[pp.bt("id", "q"), pp.bt("lit", ";")]))
            fs[-1] += [pp.use("PF", [[]]), pp.nl()]
        if rng.random() < 0.15:
            fs[rng.randrange(n)].insert(0, pp.undefall())
        extra = {}
        if rng.random() < 0.35:
            # definitions and undefinitions made inside an included file are part of the table, too
            inc = [pp.define("B", [("q", None)], [pp.bt("id", "q"), pp.bt("lit", "iq")]), pp.nl(), pp.undef(rng.choice(["A", "C"])), pp.nl(),
                   pp.ifdef("A"), pp.define("C", None, [pp.bt("lit", "ic")]), pp.nl(), pp.endif(), pp.nl()]
            if rng.random() < 0.3:
                inc.insert(0, pp.undefall())
            extra["inc.svh"] = gen.finish_file(inc)
            k = rng.randrange(n)
            fs[k] = fs[k] + [pp.nl(), pp.inc("inc.svh"), pp.nl()]
        groups.append((fs, predef, "seeded", extra))
    cases = []
    meta = []
    nid = 0
    for (fs, predef, kind, extra) in groups:
        fs = [gen.finish_file(f) for f in fs]
        # sequential: f1, then f2 with f1's table, ...; and the concatenation
        nid += 1
        files = {}
        for k, f in enumerate(fs):
            files["f%d.sv" % k] = copy.deepcopy(f)
        cat = []
        for f in fs:
            cat += copy.deepcopy(f)
        files["cat.sv"] = cat
        for en, ei in extra.items():
            files[en] = copy.deepcopy(ei)
        cases.append({"id": nid, "files": files, "top": "f0.sv", "predef": predef, "n": len(fs)})
        meta.append(kind)
    vlib.log("C11: %d groups" % len(cases))
    hcases = []
    envs = []
    for c in cases:
        env, hfiles, call, texts = ppcheck.make_env(c)
        calls = []
        for k in range(c["n"]):
            cc = dict(call)
            cc["path"] = "f%d.sv" % k
            cc["no_origins"] = True
            if k > 0:
                cc["defines_from"] = k - 1
            calls.append(cc)
        cc = dict(call)
        cc["path"] = "cat.sv"
        cc["no_origins"] = True
        calls.append(cc)
        hcases.append({"id": c["id"], "files": hfiles, "calls": calls})
        envs.append(env)
    results = vlib.run_cases(hcases, tag="c11")
    recs = []
    by_id = {}
    nontriv = 0
    for c, h, env, res, kind in zip(cases, hcases, envs, results, meta):
        rs = res["results"]
        obs = [pp.observe_pp(x) for x in rs]
        n = c["n"]
        by_id[str(c["id"])] = {"kind": kind, "files": h["files"], "predef": c["predef"]}
        by_id["t%d" % c["id"]] = by_id[str(c["id"])]
        by_id["c%d" % c["id"]] = by_id[str(c["id"])]
        # table of the first file and of the concatenation against the specification
        e0 = dict(env)
        recs.append({"id": "t%d" % c["id"], "kind": "run", "org": False, "env": e0, "obs": obs[0]})
        ec = dict(env)
        ec["top"] = "cat.sv"
        recs.append({"id": "c%d" % c["id"], "kind": "run", "org": False, "env": ec, "obs": obs[n]})
        # relation: fold the sequential runs into (A = f0..f(n-2) seq, B = last) by comparing the chain with cat:
        # tokens(cat) = tokens(f0) o ... o tokens(f(n-1)); table(cat) = table(last)
        seq = {"outcome": "ok", "toks": [], "blanks": [], "defs": [], "err": [], "msg": ""}
        failed = None
        for k in range(n - 1):
            if obs[k]["outcome"] != "ok":
                failed = obs[k]
                break
            seq["toks"] += obs[k]["toks"]
        a = failed if failed is not None else seq
        recs.append({"id": str(c["id"]), "kind": "concat", "obs": a, "obs2": obs[n - 1] if failed is None else obs[n - 1], "obs3": obs[n]})
        if obs[n]["outcome"] == "ok" and len(obs[n]["defs"]) > 0:
            nontriv += 1
    v.cov["evaluations"] = sum(len(h["calls"]) for h in hcases)
    v.cov["distinct_nontrivial"] = nontriv
    v.cov["samples"] = [{"files": by_id[str(c["id"])]["files"], "table_after_concatenation": r["obs3"]["defs"]} for c, r in
                        [(c, r) for c, r in zip(cases, [x for x in recs if x["kind"] == "concat"])][-2:]]
    ppcheck.validate_with_deviations(v, "Preproc_Trace", recs, by_id, "c11",
                                     lambda rid: "%s files=%s" % (by_id[rid]["kind"], json.dumps(by_id[rid].get("files"))[:600]))
    v.assumptions = ["renderer/tokeniser of lib/pp.py", "second and later files contain no `__LINE__/`__FILE__ (they legitimately differ)"]
    return v.finish(rule="pairs exported by TLC and seeded pairs/triples of mixed files; each group: files one after the other with the returned table "
                         "threaded through, and the concatenation; non-trivial = successful concatenations with a non-empty final table", exhaustive=False)


def replay(path):
    print(json.dumps(json.load(open(path)), indent=1))
    return 0
