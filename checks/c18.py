"""C18 — strip_comments removes comments and nothing else.

MC   MC_PreprocRel: StripOnlyComments and NoCommentLeft for every pair of programs of the mixed
     universe (comments with and without surrounding blanks, next to directives and usages).
GEN  the exported pairs and seeded mixed programs (comments as the only separator between tokens,
     in macro bodies, in included files, after usages and `endif), each run with the flag off and on.
TV   Preproc_Trace: the relation between the two observed runs (same non-comment tokens, table,
     error; no comment left) and each run against the specification (strip flag in the env).
"""
import random, json, copy
import vlib, pp, ppcheck, gen


def run(tier, seed):
    v = vlib.Verdict("C18", tier, seed)
    vlib.build_harness()
    rng = random.Random(seed)
    quick = tier == "quick"
    r = vlib.tlc_model_check("MC_PreprocRel.tla", "MC_PreprocRel_%s.cfg" % ("quick" if quick else "thorough"), workers=8, extra=["-coverage", "1"], timeout=3000)
    v.add_mc("MC_PreprocRel", r, "StripOnlyComments, NoCommentLeft (also ConcatEquiv, Fixpoint)")
    ex, r = vlib.tlc_export("MC_PreprocRel.tla", "MC_PreprocRel_gen2.cfg", workers=4)
    v.add_mc("MC_PreprocRel_gen2", r, "GEN export %d program pairs" % len(ex))
    rng.shuffle(ex)
    cases = []
    by_id = {}
    nid = 0
    for e in ex[: (2500 if quick else len(ex))]:
        nid += 1
        items = []
        for it in e["a"] + [pp.nl()] + e["b"]:
            it = dict(it)
            items.append(it)
        cases.append({"id": nid, "files": {"top.sv": gen.finish_file(items)}, "top": "top.sv"})
        by_id[str(nid)] = {"kind": "pair"}
    for i in range(1500 if quick else 20000):
        nid += 1
        u = gen.U()
        top = gen.mixed_program(rng, u)
        files = {"top.sv": None}
        if rng.random() < 0.3:
            files["inc.svh"] = gen.finish_file(gen.mixed_program(rng, u, size=rng.randint(1, 4)))
            top = top[: len(top) // 2] + [pp.nl(), pp.inc("inc.svh"), pp.nl()] + top[len(top) // 2:]
        files["top.sv"] = gen.finish_file(top)
        cases.append({"id": nid, "files": files, "top": "top.sv"})
        if rng.random() < 0.15:
            cases[-1]["nl"] = "\r\n"          # CRLF line ends (a // comment ends before the CR)
        by_id[str(nid)] = {"kind": "seeded"}
    vlib.log("C18: %d cases" % len(cases))

    def extra(c, env, call, texts):
        c2 = dict(call)
        c2["strip_comments"] = True
        return [c2]
    records, hcases, results = ppcheck.build_run_records(cases, "c18", check_origins=False, extra_calls=extra)
    recs = []
    ncm = 0
    for c, h, res, rec in zip(cases, hcases, results, records):
        by_id[str(c["id"])]["files"] = h["files"]
        obs2 = pp.observe_pp(res["results"][1])
        recs.append({"id": str(c["id"]), "kind": "strip", "env": rec["env"], "obs": rec["obs"], "obs2": obs2, "org": False})
        if any(t["c"] for t in rec["obs"]["toks"]):
            ncm += 1
    v.cov["evaluations"] = 2 * len(cases)
    v.cov["distinct_nontrivial"] = ncm
    v.cov["samples"] = [{"files": by_id[str(c["id"])]["files"], "plain": [t["t"] for t in r["obs"]["toks"]][:30], "stripped": [t["t"] for t in r["obs2"]["toks"]][:30]}
                        for c, r in list(zip(cases, recs))[-3:]]
    ppcheck.validate_with_deviations(v, "Preproc_Trace", recs, by_id, "c18",
                                     lambda rid: "%s files=%s" % (by_id[rid]["kind"], json.dumps(by_id[rid].get("files"))[:500]))
    v.assumptions = ["renderer/tokeniser of lib/pp.py"]
    return v.finish(rule="program pairs exported by TLC (MC_PreprocRel) and seeded mixed programs, each preprocessed with strip_comments off and on; "
                         "non-trivial = runs whose unstripped output contains at least one comment", exhaustive=False)


def replay(path):
    print(json.dumps(json.load(open(path)), indent=1))
    return 0
