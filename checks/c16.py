"""C16 — tree traversal is a faithful pre-order with balanced events.

MC   MC_Tree: Iter and EventIter as explicit stack machines over ALL ordered trees up to the bound,
     stepped from the root and from every sub-node: output is a prefix of / equal to the recursive
     pre-order, events balanced and nested, Enter projection = Iter, sub-iteration = slice.
TV   Tree_Trace on trees the real parser returns for the repository corpus (both grammars, layout
     variants): recorded Iter and EventIter streams, and for sampled nodes the sub-iteration, the
     results of unwrap_node!/unwrap_locate! for four kind sets, get_str, get_str_trim, Locate::try_from.
"""
import random, json
import vlib, corpus, treecheck, svgen


def run(tier, seed):
    v = vlib.Verdict("C16", tier, seed)
    vlib.build_harness()
    rng = random.Random(seed)
    quick = tier == "quick"
    r = vlib.tlc_model_check("MC_Tree.tla", "MC_Tree_%s.cfg" % ("quick" if quick else "thorough"), workers=8, extra=["-coverage", "1"], timeout=3000)
    v.add_mc("MC_Tree", r, "IterIsPrefix, IterComplete, EventIsPrefix, EventComplete, SubIsSlice, NodeFirst")
    cor = corpus.parser_corpus()
    rng.shuffle(cor)
    cor = cor[: (220 if quick else len(cor))]
    import c02
    sw = c02.class_sweep(rng)
    for (st, b, ch, note) in [x for x in sw if (not quick) or x[3].endswith('/0')]:
        cor.append({"kind": "sv", "text": c02.build_case("x", st, b, ch)["text"], "src": "grammar-sweep"})
    hcases = []
    meta = {}
    for i, x in enumerate(cor):
        text = x["text"] if i % 2 == 0 else treecheck.decorate(x["text"], rng, heavy=False)
        if i % 3 == 0:
            # the root's first tokens are white space: blank lines, comments, a kept directive in front of the first
            # description (get_str_trim of the root starts at the first NON-white-space token)
            text = ["\n", "  \n\t", "// head\n", "/* head */ ", "`timescale 1ns/1ps\n", "\n// a\n/* b */\n`celldefine\n"][(i // 3) % 6] + text
        fn = "two_step_sv_str" if x["kind"] == "sv" else "two_step_lib_str"
        hcases.append({"id": i, "calls": [{"fn": fn, "path": "t.sv", "text": text, "probe_nodes": 40 if quick else 120, "seed": seed + i}]})
        meta[str(i)] = {"text": text, "kind": x["kind"]}
    results = vlib.run_cases(hcases, tag="c16", limit_ms=60000)
    recs = []
    kinds = set()
    skipped = 0
    big = 0
    for h, res in zip(hcases, results):
        r0 = res["results"][0]
        if r0.get("outcome") != "ok":
            skipped += 1
            if r0.get("outcome") != "err":
                # a panic while iterating / probing the tree is data (e.g. the adjacency assertion of Locate::try_from)
                v.violation("traversal of the tree did not return: %s %s; source %r" % (r0.get("outcome"), str(r0.get("msg"))[:200], meta[str(h["id"])]["text"][:200]), meta[str(h["id"])])
            continue
        rec = treecheck.tree_record(h["id"], r0, "strict")
        if rec is None:
            big += 1
            continue
        kinds.update(rec["kinds"])
        recs.append(rec)
    vlib.log("C16: %d trees (%d inputs not accepted, %d too large)" % (len(recs), skipped, big))
    bad, stats = vlib.tlc_validate("Tree_Trace.tla", "Tree_Trace.cfg", recs, tag="c16", shards=8)
    v.add_tv("Tree_Trace", stats, len(recs))
    for rid, reasons in bad.items():
        v.violation("source %r: %s" % (meta[rid]["text"][:300], "; ".join(reasons)[:500]), meta[rid])
    v.cov["evaluations"] = len(recs)
    v.cov["distinct_nontrivial"] = len(recs)
    v.cov["probed_nodes"] = sum(len(r["probes"]) for r in recs)
    v.cov["reached_node_kinds"] = len(kinds)
    v.cov["inputs_not_accepted_skipped"] = skipped
    v.cov["samples"] = [{"source": meta[r["id"]]["text"][:400], "nodes": len(r["iter"]), "events": len(r["ev"]), "probes": len(r["probes"])} for r in recs[:3]]
    v.assumptions = ["node identity = (kind, address of the referenced value) through the generated match over all RefNode variants",
                     "child order is tied to source order by C01's offset monotonicity"]
    return v.finish(rule="trees returned for the repository corpus (alternating original and re-laid-out text); non-trivial = every accepted tree; "
                         "reached_node_kinds of ~1240 RefNode kinds", exhaustive=False)


def replay(path):
    print(json.dumps(json.load(open(path)), indent=1))
    return 0
