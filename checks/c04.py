"""C04 — conditional compilation selects exactly the IEEE 22.6 branch.

MC   MC_PreprocCond: machine = declarative reference (SelectRef), dead code inert, step bound,
     for every well-nested program of the bounded universes x initial define tables.
GEN  the same programs are exported by TLC, rendered with unique tokens and two layouts,
     executed by the real preprocessor.
TV   Preproc_Trace judges tokens, origins, returned define table and error of every run.
"""
import random
import vlib, pp, ppcheck


def table(modes):
    out = []
    for name, m in zip(("A", "B"), modes):
        if m == 1:
            out.append(pp.predef_entry(name, none=True))
        elif m == 2:
            out.append(pp.predef_entry(name, body=[pp.bt("lit", "p" + name)]))
    return out


def complete(prog, rng, dense):
    """abstract [k, n] list exported by TLC -> full items with unique tokens and a layout"""
    items = []
    n = 0
    for (k, name) in prog:
        n += 1
        if k == "tok":
            items.append(pp.tok("t%03d" % n))
        elif k == "def":
            items.append(pp.define(name, None, [pp.bt("lit", "d%03d" % n)]))
        elif k == "use":
            items.append(pp.use(name))
        elif k == "inc":
            items.append(pp.inc(name))
        elif k == "kept":
            items.append(pp.kept(name))
        else:
            items.append(pp.item(k, name))
        # layout: a `define always ends its line; an `include stands alone on its line;
        # otherwise either one item per line or (dense) several items share a line
        nxt_inc = False
        if k in ("def", "inc", "kept") or not dense or rng.random() < 0.4:
            items.append(pp.nl())
    # `include must be alone on its line: make sure a newline precedes it
    fixed = []
    for it in items:
        if it["k"] == "inc" and fixed and fixed[-1]["k"] != "nl":
            fixed.append(pp.nl())
        fixed.append(it)
    if fixed[-1]["k"] != "nl":
        fixed.append(pp.nl())
    return fixed


def cond_program(rng, n, depth):
    """seeded well-nested program of about n items over names A B C __LINE__ __FILE__"""
    out = []
    names = ["A", "B", "A", "B", "C", "__LINE__", "__FILE__"]
    while len(out) < n:
        r = rng.random()
        if r < 0.30 and depth < 5:
            out.append(["ifdef" if rng.random() < 0.55 else "ifndef", rng.choice(names)])
            out += cond_program(rng, rng.choice([0, 0, 1, 2, 3, 6]), depth + 1)
            for _ in range(rng.choice([0, 0, 1, 2])):
                out.append(["elsif", rng.choice(names)])
                out += cond_program(rng, rng.choice([0, 0, 1, 2, 4]), depth + 1)
            if rng.random() < 0.5:
                out.append(["else", ""])
                out += cond_program(rng, rng.choice([0, 0, 1, 2, 4]), depth + 1)
            out.append(["endif", ""])
        elif r < 0.55:
            out.append(["tok", "t"])
        elif r < 0.70:
            out.append(["def", rng.choice(["A", "B", "C"])])
        elif r < 0.80:
            out.append(["undef", rng.choice(["A", "B", "C"])])
        elif r < 0.83:
            out.append(["undefall", ""])
        elif r < 0.86:
            out.append(["kept", "`resetall"])        # resets directive state, NOT the define table
        elif r < 0.95:
            out.append(["use", rng.choice(["A", "B", "C"])])
        else:
            out.append(["inc", rng.choice(["missing.svh", "ua.svh", "db.svh", "all.svh", "ua.svh", "db.svh"])])
    return out


def headers():
    """included files whose only effect is on the define table: what they define / undefine must
    reach the conditionals that follow the `include in the including file"""
    return {"ua.svh": [pp.item("undef", "A"), pp.nl()],
            "db.svh": [pp.define("B", None, [pp.bt("lit", "hb")]), pp.nl(), pp.item("undef", "C"), pp.nl()],
            "all.svh": [pp.item("undefall", ""), pp.nl()]}


def nontrivial(prog):
    ks = [k for k, _ in prog]
    return any(k in ("ifdef", "ifndef") for k in ks) and any(k in ("tok", "use", "def", "undef") for k in ks)


def run(tier, seed):
    v = vlib.Verdict("C04", tier, seed)
    vlib.build_harness()
    rng = random.Random(seed)
    quick = tier == "quick"
    # 1. model checking of the design
    mcs = ["quick", "quick_hostile", "quick_skel"] if quick else ["thorough", "thorough_deep", "thorough_hostile", "thorough_skel"]
    for c in mcs:
        r = vlib.tlc_model_check("MC_PreprocCond.tla", "MC_PreprocCond_%s.cfg" % c, workers=8, extra=["-coverage", "1"])
        v.add_mc("MC_PreprocCond_" + c, r, "MachineEqualsRef, StepBound, DeadInert")
    # 2. GEN
    gens = ["gen_wide4", "gen_hostile4", "gen_deep5", "gen_skel7"] if quick else ["gen_wide5", "gen_hostile5", "gen_deep6", "gen_skel9"]
    progs = []
    for g in gens:
        ps, r = vlib.tlc_export("MC_PreprocCond.tla", "MC_PreprocCond_%s.cfg" % g, workers=4)
        v.add_mc("MC_PreprocCond_" + g, r, "GEN export: %d programs" % len(ps))
        for p in ps:
            progs.append((g, p))
    tables = [(0, 0), (1, 2), (2, 0)] if quick else [(0, 0), (1, 2), (2, 0), (0, 1), (2, 2)]
    if quick:
        # every program with one table chosen by the seed, plus a seeded third of them with all three
        pass
    cases = []
    by_id = {}
    nid = 0
    for (g, p) in progs:
        if quick:
            tabs = [tables[rng.randrange(len(tables))]]
        else:
            tabs = tables[:3] if g not in ("gen_wide5", "gen_skel9") else [tables[rng.randrange(5)], tables[rng.randrange(5)]]
        for t in tabs:
            nid += 1
            dense = rng.random() < 0.5
            items = complete(p, rng, dense)
            case = {"id": nid, "files": {"top.sv": items}, "top": "top.sv", "predef": table(t),
                    "fn": "preprocess" if nid % 2 else "preprocess_str"}
            cases.append(case)
            by_id[str(nid)] = {"prog": p, "table": t, "universe": g}
    # seeded larger programs: long chains, nesting up to 5, empty branches, defines/undefs/usages in every position
    for i in range(2500 if quick else 40000):
        nid += 1
        prog = cond_program(rng, rng.randint(4, 40), 0)
        t = tables[rng.randrange(len(tables))]
        items = complete(prog, rng, rng.random() < 0.5)
        files = {"top.sv": items}
        files.update(headers())
        cases.append({"id": nid, "files": files, "top": "top.sv", "predef": table(t), "fn": "preprocess"})
        if rng.random() < 0.15:
            cases[-1]["nl"] = "\r\n"          # the same program with CRLF line ends
        by_id[str(nid)] = {"prog": prog, "table": t, "universe": "seeded"}
    vlib.log("C04: %d cases" % len(cases))
    records, hcases, results = ppcheck.build_run_records(cases, "c04", check_origins=False)
    for c, h in zip(cases, hcases):
        by_id[str(c["id"])]["source"] = h["files"]["top.sv"]
    v.cov["evaluations"] = len(cases)
    v.cov["distinct_nontrivial"] = len({(tuple(map(tuple, by_id[str(c["id"])]["prog"])), tuple(by_id[str(c["id"])]["table"]))
                                        for c in cases if nontrivial(by_id[str(c["id"])]["prog"])})
    v.cov["samples"] = [{"program": by_id[str(c["id"])]["prog"], "table": by_id[str(c["id"])]["table"],
                         "source": by_id[str(c["id"])]["source"], "observed": r["obs"]["outcome"],
                         "tokens": [t["t"] for t in r["obs"]["toks"]]}
                        for c, r in list(zip(cases, records))[:: max(1, len(cases) // 3)][:3]]
    ppcheck.validate_with_deviations(v, "Preproc_Trace", records, by_id, "c04",
                                     lambda rid: "program %s table %s" % (by_id[rid]["prog"], by_id[rid]["table"]))
    v.assumptions = ["renderer/tokeniser of lib/pp.py (concretisation/abstraction)", "TLC, Json module",
                     "bounded universes: wide<=%d items, hostile, deep" % (4 if quick else 5)]
    return v.finish(rule="programs = all well-nested item sequences of the MC_PreprocCond universes exported by TLC, "
                         "each rendered with unique tokens; non-trivial = contains a conditional and an effectful item; "
                         "distinct = distinct (program, initial table)",
                    exhaustive=True)


def replay(path):
    import json
    obj = json.load(open(path))
    print(json.dumps(obj, indent=1))
    return 0
