"""C06 — directive-free text passes through the preprocessor unchanged; outputs are fixed points.

MC   MC_PpLex: for every text up to the bound the scanner's partition tiles accepted directive-free
     text (output = input) and a rejection names one of the three lexical faults;
     MC_PreprocRel: Fixpoint for every pair of model programs.
GEN  every text up to the bound over the lexical alphabet (TLC export) and seeded long texts (strings
     with escapes/backticks, escaped identifiers, both comment kinds, CR/LF/CRLF, tabs, non-ASCII).
TV   PpLex_Trace: accepted iff no fault; output bytes = input bytes; identity origins; Preprocess(path, pos)
     with pos not after the fault.  Preproc_Trace kind "fix": the output of every successful run of the
     mixed programs is preprocessed again with the same initial defines and must reproduce itself.
"""
import random, json
import vlib, pp, ppcheck, gen

PATH = "dir/t.sv"


def lex_record(cid, text, res):
    cs = list(text)
    boff = []
    b = 0
    for ch in cs:
        boff.append(b)
        b += len(ch.encode())
    boff.append(b)
    obs = {"outcome": res.get("outcome"), "out": [], "runs": [], "err": []}
    if obs["outcome"] == "ok":
        obs["out"] = list(res["text"])
        obs["runs"] = [[a, n, p if p is not None else "", o] for (a, n, p, o) in res["origins"]]
    elif obs["outcome"] == "err":
        obs["err"] = pp.err_to_spec(res["err"])
    return {"id": str(cid), "kind": "lex", "cs": cs, "boff": boff, "path": PATH, "obs": obs}


PIECES = ['"str"', '"a\\"b"', '"with ` tick"', '"// no comment"', '"/* no */"', "\\esc+id ", "\\e`x ", "/* block */", "/* ` */", "/**/", "// line\n", "// `tick\n",
          "word", "w0rd_$", "12'h3f", " ", "  ", "\t", "\n", "\r\n", "\r", "é", "日本", "/", "*", "+", ";", "(", ")", "a/b", "a / b", "x*/y"]
FAULTS = ['"open', '"esc\\', "/* open", "\\ ", "\\\n", "\\"]


def seeded_text(rng):
    n = rng.randint(1, 40)
    parts = [rng.choice(PIECES) for _ in range(n)]
    if rng.random() < 0.25:
        parts.insert(rng.randrange(len(parts) + 1), rng.choice(FAULTS))
    return "".join(parts)


def run(tier, seed):
    v = vlib.Verdict("C06", tier, seed)
    vlib.build_harness()
    rng = random.Random(seed)
    quick = tier == "quick"
    r = vlib.tlc_model_check("MC_PpLex.tla", "MC_PpLex_%s.cfg" % ("quick" if quick else "thorough"), workers=8, extra=["-coverage", "1"])
    v.add_mc("MC_PpLex", r, "RefIdentity, FaultKinds")
    r = vlib.tlc_model_check("MC_PpLex.tla", "MC_PpLex_dev.cfg", workers=8)
    v.add_mc("MC_PpLex_dev", r, "with the D2 deviation on: FiredGrows")
    r = vlib.tlc_model_check("MC_PreprocRel.tla", "MC_PreprocRel_%s.cfg" % ("quick" if quick else "thorough"), workers=8, timeout=3000)
    v.add_mc("MC_PreprocRel", r, "Fixpoint")
    texts = []
    for g in (["gen4"] if quick else ["gen5", "gen4w"]):
        ex, r = vlib.tlc_export("MC_PpLex.tla", "MC_PpLex_%s.cfg" % g, workers=4)
        v.add_mc("MC_PpLex_" + g, r, "GEN export %d texts" % len(ex))
        texts += ["".join(x) for x in ex]
    nexh = len(texts)
    for i in range(3000 if quick else 40000):
        texts.append(seeded_text(rng))
    hcases = [{"id": i, "calls": [{"fn": "preprocess_str", "path": PATH, "text": t}]} for i, t in enumerate(texts)]
    vlib.log("C06: %d texts" % len(hcases))
    results = vlib.run_cases(hcases, tag="c06")
    recs = [lex_record(i, t, res["results"][0]) for (i, t), res in zip(enumerate(texts), results)]
    by_id = {str(i): {"text": t} for i, t in enumerate(texts)}
    # pass 1: reference; pass 2: open deviation D2
    bad, stats = vlib.tlc_validate("PpLex_Trace.tla", "PpLex_Trace.cfg", recs, tag="c06")
    v.add_tv("PpLex_Trace", stats, len(recs))
    if bad:
        import os
        cfg = os.path.join(vlib.WORK, "PpLex_Trace_dev_%d.cfg" % os.getpid())
        open(cfg, "w").write(open(os.path.join(vlib.SPECS, "PpLex_Trace.cfg")).read().replace("Dev = {}", 'Dev = {"DupTriviaAfterStrEsc"}'))
        rej = [r for r in recs if r["id"] in bad]
        bad2, stats2 = vlib.tlc_validate("PpLex_Trace.tla", cfg, rej, tag="c06d")
        v.add_tv("PpLex_Trace[Dev=D2]", stats2, len(rej))
        os.remove(cfg)
        f = ppcheck.finding_for_deviation("DupTriviaAfterStrEsc")
        for rid, reasons in bad.items():
            if rid not in bad2 and ("DEV:" + rid) in bad2:
                v.known_finding("D2", "%s (DupTriviaAfterStrEsc)" % f["title"], by_id[rid]["text"], f["properties"])
            else:
                v.violation("text %r: %s" % (by_id[rid]["text"][:200], "; ".join(reasons + bad2.get(rid, []))[:500]), by_id[rid])
    # fixpoint on mixed programs
    cases = []
    for i in range(800 if quick else 10000):
        u = gen.U()
        cases.append({"id": "f%d" % i, "files": {"top.sv": gen.finish_file(gen.mixed_program(rng, u, allow_pos=False))}, "top": "top.sv",
                      "predef": [pp.predef_entry("C", body=[pp.bt("lit", "cv")])] if rng.random() < 0.3 else []})

    def extra(c, env, call, texts):
        c2 = dict(call)
        c2["fn"] = "preprocess_str"
        c2["text_from"] = 0
        return [c2]
    hc = []
    for c in cases:
        env, hfiles, call, tx = ppcheck.make_env(c)
        hc.append({"id": c["id"], "files": hfiles, "calls": [call] + extra(c, env, call, tx)})
        by_id[c["id"]] = {"files": hfiles}
    res = vlib.run_cases(hc, tag="c06f")
    frecs = [{"id": c["id"], "kind": "fix", "obs": pp.observe_pp(r["results"][0]), "obs2": pp.observe_pp(r["results"][1])} for c, r in zip(cases, res)]
    badf, stats = vlib.tlc_validate("Preproc_Trace.tla", "Preproc_Trace.cfg", frecs, tag="c06x")
    v.add_tv("Preproc_Trace[fix]", stats, len(frecs))
    for rid, reasons in badf.items():
        v.violation("files %s: %s" % (json.dumps(by_id[rid]["files"])[:400], "; ".join(reasons)[:300]), by_id[rid])
    v.cov["evaluations"] = len(texts) + 2 * len(cases)
    v.cov["distinct_nontrivial"] = len({t for t in texts if any(c in t for c in '"\\/')})
    v.cov["exhaustive_texts"] = nexh
    v.cov["samples"] = [{"text": t, "outcome": r["obs"]["outcome"]} for t, r in list(zip(texts, recs))[-4:]]
    v.assumptions = ["TLC string comparison of one-character strings (non-ASCII characters are compared as characters, offsets as bytes through boff)"]
    return v.finish(rule="all texts over {a,blank,newline,quote,backslash,slash,star,backtick,e-acute} up to length %d (TLC export) + seeded long texts; "
                         "texts with a live backtick are not directive-free and are skipped by the trace spec; non-trivial = texts containing a quote, "
                         "backslash or slash; fixpoint on seeded mixed programs" % (4 if quick else 5), exhaustive=False)


def replay(path):
    print(json.dumps(json.load(open(path)), indent=1))
    return 0
