"""C20 — file, string and two-step entry points agree.

MC   MC_Api: the entry points as compositions over uninterpreted PP/PARSE for every flag vector;
     refutation config "swapped wiring" must violate the equations.
GEN  flag-sensitive inputs: mixed preprocessor programs with comments and includes (pp family),
     SystemVerilog sources from the repository corpus plus sources with includes, comments and
     trailing junk (sv and lib families), with define tables and include paths.
TV   Api_Trace: for every flag vector all entry points of a class return the same tree fingerprint /
     text / define table / error; Preproc_Trace: preprocess and preprocess_str against the
     specification run that carries the NAMED flags (a consistent swap of booleans is caught too).
"""
import random, json, copy
import vlib, pp, ppcheck, gen, corpus, tree

SV_EXTRA = [
    ("sv", "`include \"d.svh\"\nmodule m; /* c */ `W w; // x\nendmodule\n@@@ junk", {"d.svh": "`define W wire\n"}),
    ("sv", "module a; endmodule\nmodule b; `include \"d.svh\"\nendmodule\n", {"d.svh": "wire q; // c\n"}),
    ("sv", "module a; endmodule\nmodule b; wire", {}),
    ("sv", "`ifdef X\nmodule x; endmodule\n`else\nmodule y; endmodule\n`endif\n", {}),
    ("sv", "module m; `include \"nothere.svh\"\nendmodule\n", {}),
    ("lib", "library l a.v, b.v;\ninclude \"x.map\";\n", {}),
    ("lib", "library l a.v; `include \"d.svh\"\n", {"d.svh": "library k c.v;\n"}),
    ("lib", "library l a.v; junk junk", {}),
]


def run(tier, seed):
    v = vlib.Verdict("C20", tier, seed)
    vlib.build_harness()
    rng = random.Random(seed)
    quick = tier == "quick"
    r = vlib.tlc_model_check("MC_Api.tla", "MC_Api.cfg", workers=2)
    v.add_mc("MC_Api", r, "EntryPointsAgree for all flag vectors (faithful wiring)")
    r = vlib.tlc_model_check("MC_Api.tla", "MC_Api_refute.cfg", workers=2, expect_violation=True)
    v.add_mc("MC_Api_refute", r, "refutation: swapped (strip, ign) wiring violates the equations")
    # ---- pp family
    cases = []
    for i in range(250 if quick else 3000):
        u = gen.U()
        top = gen.mixed_program(rng, u)
        files = {}
        if rng.random() < 0.6:
            files["inc.svh"] = gen.finish_file(gen.mixed_program(rng, u, size=rng.randint(1, 4)))
            top = top[: len(top) // 2] + [pp.nl(), pp.inc("inc.svh"), pp.nl()] + top[len(top) // 2:]
        files["top.sv"] = gen.finish_file(top)
        predef = [pp.predef_entry("C", body=[pp.bt("lit", "cv")])] if rng.random() < 0.4 else []
        cases.append({"id": "p%d" % i, "files": files, "top": "top.sv", "predef": predef})
    hcases = []
    envs = []
    for c in cases:
        env, hfiles, call, texts = ppcheck.make_env(c)
        calls = []
        for ign in (False, True):
            for strip in (False, True):
                for fn in ("preprocess", "preprocess_str"):
                    cc = dict(call)
                    cc.update({"fn": fn, "ignore_include": ign, "strip_comments": strip})
                    if fn == "preprocess_str":
                        cc["text"] = texts["top.sv"]
                    calls.append(cc)
        hcases.append({"id": c["id"], "files": hfiles, "calls": calls, "fresh_each": True})
        envs.append(env)
    results = vlib.run_cases(hcases, tag="c20p")
    apirecs = []
    runrecs = []
    by_id = {}
    for c, h, env, res in zip(cases, hcases, envs, results):
        calls = []
        for call, rr in zip(h["calls"], res["results"]):
            calls.append({"fn": call["fn"], "fam": "pp", "ign": call["ignore_include"], "strip": call["strip_comments"], "inc": False,
                          "res": tree.result_summary(rr)})
            e2 = dict(env)
            e2["ign"] = call["ignore_include"]
            e2["strip"] = call["strip_comments"]
            rid = "%s/%s/%d%d" % (c["id"], call["fn"], call["ignore_include"], call["strip_comments"])
            runrecs.append({"id": rid, "kind": "run", "org": False, "env": e2, "obs": pp.observe_pp(rr)})
            by_id[rid] = {"files": h["files"], "call": {k: call[k] for k in ("fn", "ignore_include", "strip_comments")}}
        apirecs.append({"id": c["id"], "kind": "api", "calls": calls, "c15": False})
        by_id[c["id"]] = {"files": h["files"]}
    # ---- sv / lib families
    srcs = []
    cor = corpus.parser_corpus()
    rng.shuffle(cor)
    for x in cor[: (150 if quick else len(cor))]:
        srcs.append((x["kind"], x["text"], {}))
    srcs += SV_EXTRA
    # byte-level layouts of the same sources: CRLF line ends, CR-free tabs / form feeds, multi-byte comments, no final
    # newline - what a file reader could "normalise" on one side only (round-2 seeded change: CRLF folded to LF when a
    # file is read, not when a string is given)
    import treecheck
    lay = []
    for j, (kind, text, incs) in enumerate(srcs):
        if j % 3 == 0:
            lay.append((kind, text.replace("\r\n", "\n").replace("\n", "\r\n"), {k: t.replace("\n", "\r\n") for k, t in incs.items()}))
        elif j % 3 == 1 and kind == "sv":
            lay.append((kind, treecheck.decorate(text, rng, heavy=True), incs))
        else:
            lay.append((kind, "\ufeff"[:0] + text.rstrip("\n") + " // \u00e9 last line without newline", incs))
    srcs += lay
    # spellings of the path itself: the name the caller passes is the name that `__FILE__, origins and error locations carry,
    # for the file and the string entry points alike (round-3 seeded change: the file reader re-spelled the path)
    srcs = [x + ("top.sv",) for x in srcs]
    FILETXT = "module m; initial $display(`__FILE__, `__LINE__); /* c */ endmodule\n"
    for pth in ("top.sv", "./top.sv", "sub/top.sv", "sub/./top.sv", "sub//top.sv", "./sub/../sub/top.sv", "sub/./deep//top.sv"):
        srcs.append(("sv", FILETXT, {}, pth))
        srcs.append(("sv", FILETXT + "@@@ junk\n", {}, pth))
        srcs.append(("lib", "library l `__FILE__ ;\n", {}, pth))
    # a header that lies BESIDE a top-level file in a sub-directory is not found unless an include path names that directory -
    # by every entry point alike (round-5 seeded change: the file entry points searched the file's own directory)
    for pth in ("sub/top.sv", "sub/./top.sv"):
        srcs.append(("sv", "`include \"beside.svh\"\nmodule m; `BW w; endmodule\n", {"sub/beside.svh": "`define BW wire\n"}, pth))
        srcs.append(("lib", "`include \"beside.svh\"\nlibrary l a.v;\n", {"sub/beside.svh": "library k b.v;\n"}, pth))
    pcases = []
    for i, (kind, text, incs, toppath) in enumerate(srcs):
        files = dict(incs)
        import posixpath
        files[posixpath.normpath(toppath)] = text
        calls = []
        defs = [{"name": "X", "none": True}] if i % 3 == 0 else []
        for ign in (False, True):
            for inc in (False, True):
                base = {"path": toppath, "defines": defs, "ignore_include": ign, "allow_incomplete": inc, "incdirs": []}
                fns = ["parse_sv", "parse_sv_str", "two_step_sv", "two_step_sv_str"] if kind == "sv" else ["parse_lib", "parse_lib_str", "two_step_lib", "two_step_lib_str"]
                for fn in fns:
                    cc = dict(base)
                    cc["fn"] = fn
                    if fn.endswith("_str"):
                        cc["text"] = text
                    calls.append(cc)
        pcases.append({"id": "s%d" % i, "files": files, "calls": calls, "fresh_each": True})
        by_id["s%d" % i] = {"files": files}
    presults = vlib.run_cases(pcases, tag="c20s", limit_ms=60000)
    for h, res in zip(pcases, presults):
        calls = []
        for call, rr in zip(h["calls"], res["results"]):
            calls.append({"fn": call["fn"], "fam": "sv" if "sv" in call["fn"] else "lib", "ign": call["ignore_include"], "strip": False,
                          "inc": call["allow_incomplete"], "res": tree.result_summary(rr)})
        apirecs.append({"id": h["id"], "kind": "api", "calls": calls, "c15": True})
    vlib.log("C20: %d pp inputs x 8 calls, %d parse inputs x 16 calls" % (len(cases), len(pcases)))
    bad, stats = vlib.tlc_validate("Api_Trace.tla", "Api_Trace.cfg", apirecs, tag="c20")
    v.add_tv("Api_Trace", stats, len(apirecs))
    for rid, reasons in bad.items():
        v.violation("input %s: %s" % (json.dumps(by_id[rid]["files"])[:400], "; ".join(reasons)[:400]), by_id[rid])
    ppcheck.validate_with_deviations(v, "Preproc_Trace", runrecs, by_id, "c20r",
                                     lambda rid: "%s %s" % (by_id[rid].get("call"), json.dumps(by_id[rid]["files"])[:400]))
    v.cov["evaluations"] = 8 * len(cases) + 16 * len(pcases)
    v.cov["distinct_nontrivial"] = len(cases) + len(pcases)
    v.cov["samples"] = [{"input": by_id[r["id"]]["files"], "calls": [[c["fn"], c["ign"], c["strip"], c["inc"], c["res"]["outcome"], c["res"]["fp"]] for c in r["calls"]]} for r in apirecs[-2:]]
    v.assumptions = ["tree fingerprint = SHA-1 over node kinds, Enter/Leave stream and token locations", "renderer/tokeniser of lib/pp.py"]
    return v.finish(rule="seeded mixed preprocessor programs (comments, includes, caller defines) x {preprocess, preprocess_str} x 4 flag vectors; corpus "
                         "and flag-sensitive SystemVerilog/library sources x 4 entry points x 4 flag vectors; non-trivial = distinct inputs", exhaustive=False)


def replay(path):
    print(json.dumps(json.load(open(path)), indent=1))
    return 0
