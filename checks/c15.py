"""C15 — incomplete mode never fails and agrees with strict mode.

MC   MC_Api (equations between entry points; IncompleteAgreement / JunkDisagreement are operators of Api).
TV   Api_Trace kind "c15": for every input (accepted or not, both grammars: corpus, Grammar sentences,
     fault-injected sentences) strict vs. incomplete results and incomplete results on the input with
     unparsable suffixes (`@@@`, an unmatched `end`, half a module): incomplete never reports Parse;
     equal trees whenever strict accepts; the suffix leaves the tree unchanged, whitespace aside.
     Tree_Trace (mode incomplete): the returned tree tiles a prefix of the preprocessed text.
"""
import random, json
import vlib, corpus, svgen, tree, treecheck, pp

# unparsable suffixes; the last three END INSIDE a token class that is read greedily (system task name, identifier,
# number): the end of input right behind it is where a streaming-style parser would ask for more instead of failing
JUNK = ["\n@@@", "\nend", "\nmodule half (input a", "\n) ] }", "\n`celldefine\n@", "\nmodule c; initial $fini", "\nmodule d; localparam P = $clog2", "\nmodule e; wire [7"]
LIBJUNK = ["\n@@@", "\nlibrary", "\n) )"]
# suffixes that BEGIN like an optional trailing part of some construct (an end label, a parameter assignment, a port list,
# a dimension, a delay ...) but cannot be completed: the optional part must be given up, not the construct in front of it
# (round-6 seeded change: after `endmodule :` an identifier was demanded once the colon had been seen)
JUNK2 = ["\n:", "\n: 1", "\n::", "\n:=", "\n: module", "\n#", "\n# (", "\n(", "\n[", "\n,", "\n.", "\n=", "\n@ (", "\n'", "\n{", "\n: /* c */", " :", "\n: $"]


def damage(text, rng):
    """fault injection: delete / duplicate / transpose one token, or truncate"""
    toks = pp.tokenize(text)
    if len(toks) < 3:
        return text + " @"
    i = rng.randrange(len(toks))
    o, t, c = toks[i]
    r = rng.random()
    if r < 0.35:
        return text[:o] + text[o + len(t):]
    if r < 0.55:
        return text[:o] + t + " " + text[o:]
    if r < 0.7:
        return text[:o]
    if r < 0.8:
        return text[:o + len(t)]          # the text ends right behind a token (no trailing blank or newline)
    return text[:o] + "@" + text[o:]


def run(tier, seed):
    v = vlib.Verdict("C15", tier, seed)
    vlib.build_harness()
    rng = random.Random(seed)
    quick = tier == "quick"
    r = vlib.tlc_model_check("MC_Api.tla", "MC_Api.cfg", workers=2)
    v.add_mc("MC_Api", r, "entry-point equations")
    ins = []
    cor = corpus.parser_corpus()
    rng.shuffle(cor)
    for x in cor[: (200 if quick else len(cor))]:
        ins.append((x["kind"], x["text"], "corpus"))
        if rng.random() < 0.5:
            ins.append((x["kind"], damage(x["text"], rng), "corpus-damaged"))
    for s in svgen.sentences(rng, 150 if quick else 4000):
        ins.append(("sv", s, "grammar"))
        ins.append(("sv", damage(s, rng), "grammar-damaged"))
    # sources whose later part switches the keyword set (closed and unclosed regions): the part BEFORE the directive
    # uses words as keywords that the region un-reserves, the part inside uses them as identifiers
    for ver, word in (("1364-2001", "logic"), ("1364-1995", "signed"), ("1364-2001-noconfig", "config"), ("1800-2005", "checker"), ("1364-2005", "bit")):
        first = {"logic": "module a; task t; return; endtask logic l; endmodule\n", "signed": "module a; wire signed [3:0] w; task t; return; endtask endmodule\n",
                 "config": "module a; task t; return; endtask endmodule\nconfig c; design a; endconfig\n", "checker": "module a; task t; return; endtask endmodule\nchecker k; endchecker\n",
                 "bit": "module a; bit b; task t; return; endtask endmodule\n"}[word]
        body = "module b; reg %s; reg [7:0] q; always @(posedge %s) begin q <= q + 8'd1; end endmodule\n" % (word, word)
        for close in ("", "`end_keywords\nmodule c; logic x; endmodule\n"):
            ins.append(("sv", first + '`begin_keywords "%s"\n' % ver + body + close, "keyword-region"))
            ins.append(("sv", first * 3 + '`begin_keywords "%s"\n' % ver + body * 4 + close, "keyword-region-long"))
    # the optional leading parts of source_text / library_text behind leading trivia: the two modes must read
    # blanks, comments and directives in front of a compilation-unit timeunits declaration the same way
    # (round-2 seeded change: incomplete mode tried the timeunits slot before the leading white space)
    LEADS = ["", " ", "\n", "\t\n  ", "// head\n", "/* h */ ", "`celldefine\n", "`timescale 1ns/1ps\n", "\n// a\n/* b */\n`default_nettype none\n"]
    for lead in LEADS:
        for tu in ("timeunit 1ns;", "timeprecision 1ps;", "timeunit 1ns / 1ps;", "timeunit 1ns; timeprecision 1ps;", "timeprecision 1ps; timeunit 1ns;", ""):
            for rest in ("\nmodule m; endmodule\n", "\nimport p::*;\nmodule m; timeunit 1ns; endmodule\n", "\n"):
                ins.append(("sv", lead + tu + rest, "leading-trivia"))
    for (kind, text, src) in list(ins):
        if src in ("grammar", "corpus") and rng.random() < 0.3:
            ins.append((kind, rng.choice(LEADS[1:]) + text, src + "+lead"))
    ins += [("lib", "library l a.v, b.v; include \"x\"; config c; design l.a; default liblist l; endconfig", "lib"),
            ("lib", "library l a.v;\nlibrary", "lib-damaged"), ("sv", "", "empty"), ("sv", "@", "junk only"), ("lib", "@", "junk only")]
    hcases = []
    for i, (kind, text, src) in enumerate(ins):
        fam = "sv" if kind == "sv" else "lib"
        junk = JUNK if kind == "sv" else LIBJUNK
        calls = [{"fn": "two_step_%s_str" % fam, "path": "t.sv", "text": text},
                 {"fn": "two_step_%s_str" % fam, "path": "t.sv", "text": text, "allow_incomplete": True, "probe_nodes": 3}]
        if kind == "sv":
            junk = junk + [JUNK2[(i + d) % len(JUNK2)] for d in ((0, 5, 11) if quick else (0, 2, 4, 5, 8, 11, 13, 15, 16))]
        for j in junk:
            calls.append({"fn": "two_step_%s_str" % fam, "path": "t.sv", "text": text + j, "allow_incomplete": True})
        hcases.append({"id": i, "calls": calls, "fresh_each": True})
    vlib.log("C15: %d inputs" % len(hcases))
    results = vlib.run_cases(hcases, tag="c15", limit_ms=60000)
    recs = []
    trecs = []
    nacc = 0
    nrej = 0
    for h, res, (kind, text, src) in zip(hcases, results, ins):
        rs = res["results"]
        strict = tree.result_summary(rs[0], want_skel=True)
        inc = tree.result_summary(rs[1], want_skel=True)
        junked = [tree.result_summary(x, want_skel=True) for x in rs[2:]]
        recs.append({"id": str(h["id"]), "kind": "c15", "strict": strict, "inc": inc, "junked": junked})
        if strict["outcome"] == "ok":
            nacc += 1
        else:
            nrej += 1
        if rs[1].get("outcome") == "ok":
            tr = treecheck.tree_record("i%d" % h["id"], rs[1], "incomplete")
            if tr is not None:
                trecs.append(tr)
    bad, stats = vlib.tlc_validate("Api_Trace.tla", "Api_Trace.cfg", recs, tag="c15")
    v.add_tv("Api_Trace[c15]", stats, len(recs))
    for rid, reasons in bad.items():
        k, t, s = ins[int(rid)]
        v.violation("%s input %r: %s" % (s, t[:300], "; ".join(reasons)[:400]), {"kind": k, "text": t})
    bad, stats = vlib.tlc_validate("Tree_Trace.tla", "Tree_Trace.cfg", trecs, tag="c15t", shards=8)
    v.add_tv("Tree_Trace[incomplete]", stats, len(trecs))
    for rid, reasons in bad.items():
        k, t, s = ins[int(rid[1:])]
        v.violation("%s input %r: %s" % (s, t[:300], "; ".join(reasons)[:400]), {"kind": k, "text": t})
    v.cov["evaluations"] = sum(len(h["calls"]) for h in hcases)
    v.cov["distinct_nontrivial"] = len({t for (_, t, _) in ins})
    v.cov["inputs_strict_accepts"] = nacc
    v.cov["inputs_strict_rejects"] = nrej
    v.cov["samples"] = [{"input": ins[int(r["id"])][1][:200], "strict": r["strict"]["outcome"], "incomplete": r["inc"]["outcome"], "junk_suffix_outcomes": [j["outcome"] for j in r["junked"]]} for r in recs[-3:]]
    v.assumptions = ["skeleton = node kinds and non-whitespace token texts with WhiteSpace subtrees removed (SHA-1)"]
    return v.finish(rule="corpus, Grammar sentences, one-fault damaged variants of both, library-map texts; each: strict, incomplete, and incomplete with "
                         "%d unparsable suffixes; non-trivial = distinct inputs" % len(JUNK), exhaustive=False)


def replay(path):
    print(json.dumps(json.load(open(path)), indent=1))
    return 0
