"""C17 — the packrat memo table is a pure optimisation.

MC   MC_Packrat: the memo table exactly as nom-packrat 0.7 (map + FIFO key queue, eviction, duplicate
     keys) under a small PEG machine run with two capacities in lock-step: Transparent holds for every
     grammar of the pure family x every input up to the bound x capacities {1,2,3,unbounded}, and is
     REFUTED for the impure patterns the real grammar contains (memoised reader of hidden state, memoised
     parser with a side-effecting child) - which is what the conformance inputs aim at.
TV   closed, deterministic input set (repository corpus, exhaustively enumerated Grammar sentences, aimed
     inputs); every input parsed on a fresh thread under capacities {unbounded,1024,256,64,16} (and
     {7,2,1} for inputs <= 200 bytes) set through the hook, per-case time limit; Packrat_Trace: acceptance
     and tree fingerprint equal across capacities.  VERIF_SEED only selects the quick tier's sub-sample.
     Known findings D11 / D15 are attributed by listed (input digest, capacity) pairs.
"""
import random, json, hashlib
import vlib, corpus, svgen, tree

CAPS = [None, 1024, 256, 64, 16]
SMALL = [7, 2, 1]
AIMED = [
    "module a; initial begin x = y `begin_keywords \"1364-2001\"\n + z; end reg logic; endmodule `end_keywords\nmodule n; logic x; endmodule\nmodule o; reg logic; endmodule\n",
    "module w; always @(a, b, c, d, e); always @(posedge clk, negedge rstn); always @(a or b, c, d or e); endmodule\n",
    "module c; assign y = a ? b ? c : d : e ? f : g; assign z = (a + (b * (c - (d / (e % f))))); endmodule\n",
    "module d; initial begin if (a) x <= 1; else if (b) x <= 2; else if (c) x <= 3; else x <= 4; end endmodule\n",
    "module e; wire [3:0] w = {a, b, {2{c}}, d[1:0]}; sub #(.P(1)) u (.a(w), .b(w[0])); endmodule\n",
    "`define M(x) x\nmodule f; wire `M(w); `ifdef X wire x; `else wire y; `endif endmodule\n",
]


def capacities(text, src):
    """the memo capacities an input of the closed set is parsed with (first = the reference: unbounded)"""
    if src == "capsweep":
        return [None] + list(range(1, 321))          # EVERY capacity up to 320: a dependence confined to a few neighbouring capacities shows
    return CAPS + (SMALL if len(text.encode()) <= 200 else [])


def digest(t):
    return hashlib.sha1(t.encode()).hexdigest()[:12]


def closed_input_set():
    ins = []
    for x in corpus.parser_corpus():
        ins.append((x["kind"], x["text"], "corpus"))
    for st in ("module_ansi", "stmt", "expr", "module_item", "class_decl", "function_decl", "gen_if", "interface_decl"):
        ex, r = vlib.tlc_export("MC_Grammar.tla", "MC_Grammar_%s_q.cfg" % st, workers=4, timeout=900)
        import c02
        budget = int(open("%s/MC_Grammar_%s_q.cfg" % (vlib.SPECS, st)).read().split("Budget = ")[1].split()[0])
        for e in sorted(ex, key=lambda e: e["choices"]):
            c = c02.build_case("x", st, budget, e["choices"])
            ins.append(("sv", c["text"], "grammar:" + st))
    for t in AIMED:
        ins.append(("sv", t, "aimed"))
    # directive-in-trivia family: every directive kind of the trivia language (incl. `resetall) directly behind a
    # description-level construct and in front of a probe that depends on keyword state (small inputs: all capacities)
    import c12
    heads = ["timeunit 1ns;", "timeunit 1ns / 1ps;", "package p; endpackage", "import p::*;", "module h; endmodule", "interface i; endinterface",
             "parameter int P = 1;", "typedef int t_t;", "function void f(); endfunction", "bind m n u();", "program q; endprogram"]
    probes = ["module m; wire module; endmodule", "module m; wire w; assign w = 1'b0; endmodule", "module m; reg logic; endmodule"]
    for h in heads:
        for k in [k for k in c12.KT if k not in ("sp", "ht", "ff", "nl", "crlf")]:
            for pr in probes:
                ins.append(("sv", "%s\n%s\n%s\n" % (h, c12.KT[k], pr), "directive-in-trivia"))
    # keyword regions that open or close INSIDE trivia the grammar reads more than once (the white space behind the ';' of a
    # header is read by every header alternative): a directive parser whose result depends on the depth of the version
    # stack gives a different answer when it is re-executed after an eviction (round-2 seeded change)
    units = [("module m ( a , b ) ;", "input a ; output b ; endmodule"), ("module m ( input a ) ;", "wire w ; endmodule"), ("module m ;", "wire w ; endmodule"),
             ("interface i ( a ) ;", "input a ; endinterface"), ("program p ( a , b ) ;", "input a ; output b ; endprogram"),
             ("function void f ( ) ;", "endfunction"), ("task t ;", "endtask"), ("class c ;", "int x ; endclass"), ("package p ;", "parameter int P = 1 ; endpackage")]
    for ver in ("1364-2001", "1800-2005", "1800-2017"):
        bk = '`begin_keywords "%s"\n' % ver
        for hd, rest in units:
            for pr in probes[:2]:
                ins.append(("sv", "%s%s\n`end_keywords\n%s\n%s\n" % (bk, hd, rest, pr), "region-in-trivia"))                       # closes inside
                ins.append(("sv", "%s\n%s%s\n`end_keywords\n%s\n" % (hd, bk, rest, pr), "region-in-trivia"))                       # opens inside
                ins.append(("sv", "%s\n%s`end_keywords\n%s\n%s\n" % (hd, bk, rest, pr), "region-in-trivia"))                      # opens and closes inside
                ins.append(("sv", "%s%s\n%s`end_keywords\n%s\n`end_keywords\n%s\n" % (bk, hd, bk, rest, pr), "region-in-trivia"))  # nested
    # capacity sweep: small inputs, one per expression / statement form, parsed at EVERY capacity from 1 to 320 (round-3
    # seeded change: a conditional expression was rejected at exactly three neighbouring capacities)
    sweep_txt = ["module s; assign y = s ? a : b; endmodule\n", "module s; assign y = (s == 2'b01) ? {a0, a1, a2} : {b, c}; endmodule\n",
                 "module s; assign y = a ? b ? c : d : e; endmodule\n", "module s; initial x = a + b * c - d; endmodule\n",
                 "module s; initial if (a) x = 1; else x = 2; endmodule\n", "module s; initial case (a) 1: x = 1; default: x = 2; endcase endmodule\n",
                 "module s; initial x = f(a, g(b)); endmodule\n", "module s; initial x = a.b.c[1].d; endmodule\n", "module s; initial x = {a, {2{b}}}; endmodule\n",
                 "module s; initial x <= #1 a ? b : c; endmodule\n", "module s; wire [3:0] w = a ? 4'd1 : 4'd2; endmodule\n",
                 "module s; initial for (int i = 0; i < 4; i++) x[i] = i ? a : b; endmodule\n", "module s; always @(posedge c) q <= r ? d : q; endmodule\n",
                 "module s; sub #(.P(a ? 1 : 2)) u (.x(a ? b : c)); endmodule\n", "module s; function int f(int a); return a ? 1 : 0; endfunction endmodule\n",
                 "class s; function new(); x = a ? b : c; endfunction endclass\n", "module s; initial x = a inside {1, [2:3]} ? b : c; endmodule\n",
                 "module s; initial x = (a ? b : c) ? d : e; endmodule\n", "module s; initial begin x = a ? b : c; y = d ? e : f; end endmodule\n",
                 "module s; assign y = a && b ? c | d : e ^ f; endmodule\n",
                 # set membership as the left part of a larger expression in a constraint / a property (round-4 seeded change)
                 "class s; rand int a, b; constraint k { a inside {1, 2} -> b == 1; } endclass\n",
                 "class s; rand int a, b; constraint k { a inside {[1:3]} && b > 0; } endclass\n",
                 "module s; property p; a inside {0, 1} |-> b; endproperty assert property (@(posedge c) a inside {0, 1} |-> b); endmodule\n",
                 "module s; initial if (a inside {1, [2:3]} && b) x = 1; endmodule\n",
                 "module s; initial x = a inside {1, 2} ? b inside {3} : c; endmodule\n"]
    for t in sweep_txt:
        ins.append(("sv", t, "capsweep"))
    # deterministic order, duplicates removed
    seen = set()
    out = []
    for k, t, s in ins:
        d = digest(t)
        if d not in seen:
            seen.add(d)
            out.append((k, t, s))
    return out


def run(tier, seed):
    v = vlib.Verdict("C17", tier, seed)
    vlib.build_harness()
    rng = random.Random(seed)
    quick = tier == "quick"
    r = vlib.tlc_model_check("MC_Packrat.tla", "MC_Packrat_pure.cfg", workers=8, extra=["-coverage", "1"], timeout=1500)
    v.add_mc("MC_Packrat_pure", r, "Transparent for the pure family, capacities {1,2,3,unbounded}")
    for c in ("impure_read", "impure_write"):
        r = vlib.tlc_model_check("MC_Packrat.tla", "MC_Packrat_%s.cfg" % c, workers=4, expect_violation=True, timeout=600)
        v.add_mc("MC_Packrat_" + c, r, "refutation: capacity-dependent result")
    # the left-recursion guard (nom-recursive) on top of the memo: with the flags in the key the table is transparent and
    # changes nothing of what the guarded grammar accepts; with the key of the code it is not (mechanism of known finding D15)
    r = vlib.tlc_model_check("MC_PackratRec.tla", "MC_PackratRec_keyed.cfg", workers=4, extra=["-coverage", "1"], timeout=900)
    v.add_mc("MC_PackratRec_keyed", r, "TransparentR, MemoFree, LeftRecursion with RecursiveInfo flags in the memo key (the repair judged too slow)")
    r = vlib.tlc_model_check("MC_PackratRec.tla", "MC_PackratRec_refute_code.cfg", workers=4, expect_violation=True, timeout=600)
    v.add_mc("MC_PackratRec_refute_code", r, "refutation: the memo key of the code (no flags) makes a guarded grammar capacity-dependent (D15)")
    ins = closed_input_set()
    import os
    excluded = set(json.load(open(os.path.join(vlib.ROOT, "c17_excluded.json"))))     # inputs that exceed the time limit (never evaluated)
    ins = [x for x in ins if digest(x[1]) not in excluded]
    total = len(ins)
    if quick:
        # the seed only selects the sub-sample; aimed inputs always included
        idx = list(range(total))
        rng.shuffle(idx)
        keep = set(idx[:350]) | {i for i, x in enumerate(ins) if x[2] in ("aimed", "directive-in-trivia", "region-in-trivia", "capsweep")}
        ins = [x for i, x in enumerate(ins) if i in keep]
    hcases = []
    for i, (kind, text, src) in enumerate(ins):
        fn = "two_step_sv_str" if kind == "sv" else "two_step_lib_str"
        caps = capacities(text, src)
        calls = [{"fn": fn, "path": "t.sv", "text": text, "memo_cap": c, "hooks": ["begin_keywords"]} for c in caps]
        hcases.append({"id": i, "calls": calls, "fresh_each": True, "limit_ms": 3000 * len(caps) + 2000})
    vlib.log("C17: %d inputs of the closed set of %d" % (len(ins), total))
    results = vlib.run_cases(hcases, tag="c17", limit_ms=40000)
    recs = []
    by_id = {}
    ntimeout = 0
    for h, res, (kind, text, src) in zip(hcases, results, ins):
        if res.get("timeout") or res.get("crash"):
            ntimeout += 1
            continue
        runs = []
        for call, rr in zip(h["calls"], res["results"]):
            s = tree.result_summary(rr)
            nkw = len(rr.get("hooks", []))
            runs.append({"cap": call["memo_cap"] if call["memo_cap"] is not None else 0, "outcome": s["outcome"], "fp": s["fp"], "err": s["err"], "kwpush": nkw})
        recs.append({"id": str(h["id"]), "digest": digest(text), "runs": runs})
        by_id[str(h["id"])] = {"text": text, "src": src, "digest": digest(text)}
    bad, stats = vlib.tlc_validate("Packrat_Trace.tla", "Packrat_Trace.cfg", recs, tag="c17", shards=4)
    v.add_tv("Packrat_Trace", stats, len(recs))
    known = vlib.load_known()
    pairs = {}
    for f in known["findings"]:
        if f["id"] in ("D11", "D15"):
            for p in f.get("pairs", []):
                pairs[(p["digest"], p["capacity"])] = f
    for rid, reasons in bad.items():
        m = by_id[rid]
        rec = [r for r in recs if r["id"] == rid][0]
        ref = rec["runs"][0]
        differing = [r["cap"] for r in rec["runs"][1:] if (r["outcome"], r["fp"]) != (ref["outcome"], ref["fp"])]
        unlisted = [c for c in differing if (m["digest"], c) not in pairs]
        if not unlisted:
            for c in differing:
                f = pairs[(m["digest"], c)]
                v.known_finding(f["id"], f["title"], "input %s at capacity %d" % (m["digest"], c), ["C17"])
        else:
            v.violation("input %s (%s) %r differs at capacities %s: %s" % (m["digest"], m["src"], m["text"][:200], unlisted, "; ".join(reasons)[:300]), m)
    v.cov["evaluations"] = sum(len(r["runs"]) for r in recs)
    v.cov["distinct_nontrivial"] = len(recs)
    v.cov["closed_set_size"] = total
    v.cov["inputs_not_evaluated_timeout"] = ntimeout
    v.cov["samples"] = [{"input": by_id[r["id"]]["text"][:200], "runs": r["runs"]} for r in recs[:2]]
    v.assumptions = ["tree fingerprint = SHA-1 over node kinds, Enter/Leave stream and token locations",
                     "a parse that exceeds the per-case time limit is counted as not evaluated, never as a verdict"]
    return v.finish(rule="closed deterministic input set (corpus + exhaustively enumerated Grammar sentences + aimed inputs) x capacities {unbounded,1024,256,64,16} "
                         "(+{7,2,1} for inputs <= 200 bytes); quick = seeded sub-sample of 350 + aimed; non-trivial = inputs evaluated at all capacities", exhaustive=not quick)


def replay(path):
    print(json.dumps(json.load(open(path)), indent=1))
    return 0
