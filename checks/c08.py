"""C08 — every entry point is total: Ok or a structured Error, never a panic.

The specification contributes the outcome typing (Api: the outcome set is {Ok, Err}; panic / crash / timeout
are not members), exact values for file faults (Preproc file-system model: ReadUtf8(path), File{path tried},
wrapped in Include once per level) and systematic FAULT ACTIONS applied to base cases from the Grammar, Preproc
and PpLex specifications: truncate at every token boundary, delete / duplicate / transpose one token, insert a
token of the lexical alphabet, splice two sentences.  After Ok the tree is iterated, Display- and Debug-formatted
and Locate::try_from is called on every node, inside the same guarded call.  Seeded byte noise is an extra
driver typed by the same monitor.  Level: fault_enumeration - the search for a panicking input is only as good
as these generators.
"""
import random, json
import vlib, pp, ppcheck, svgen, corpus, gen, tree
import c10

ALPHA = ["// é", "/* ü */", "// c", "`", "\"", "\\", "/*", "*/", "//", "(", ")", "[", "]", "{", "}", "begin", "end", "module", "endmodule", "`define", "`ifdef", "`endif", "`include", "`\"", "``",
         "'", "'b", "1'", "#", "@", ";", ",", ".", "::", "$", "\x00", "\x7f", "é", "\r", "\f", "`begin_keywords", "`__LINE__", "`resetall", "`line", "`pragma", "`timescale"]


def fault_variants(text, rng, limit):
    toks = pp.tokenize(text)
    out = []
    if not toks:
        return [text]
    n = len(toks)
    for i in range(n):                                   # truncate at every token boundary: before and right behind each token
        out.append(text[:toks[i][0]])
        out.append(text[:toks[i][0] + len(toks[i][1])])
    for _ in range(limit):
        i = rng.randrange(n)
        o, t, c = toks[i]
        r = rng.random()
        if r < 0.2:
            out.append(text[:o] + text[o + len(t):])                                 # delete
        elif r < 0.4:
            out.append(text[:o] + t + " " + text[o:])                                # duplicate
        elif r < 0.6 and i + 1 < n:
            o2, t2, c2 = toks[i + 1]
            out.append(text[:o] + t2 + text[o + len(t):o2] + t + text[o2 + len(t2):])   # transpose
        else:
            out.append(text[:o] + rng.choice(ALPHA) + " " + text[o:])                # insert
    return out


def run(tier, seed):
    v = vlib.Verdict("C08", tier, seed)
    vlib.build_harness()
    rng = random.Random(seed)
    quick = tier == "quick"
    r = vlib.tlc_model_check("MC_Api.tla", "MC_Api.cfg", workers=2)
    v.add_mc("MC_Api", r, "outcome algebra / entry-point equations")
    bases = [s for s in svgen.sentences(rng, 30 if quick else 300, budget=7)]
    # one sentence per alternative of the grammar (every construct form): Display / Debug / Locate::try_from on EVERY node
    import c02
    sweep_texts = [c02.build_case("x", st, b, ch)["text"] for (st, b, ch, note) in c02.class_sweep(rng) if note.endswith("/0") or not quick]
    cor = corpus.parser_corpus()
    rng.shuffle(cor)
    bases += [x["text"] for x in cor[: (30 if quick else 300)] if len(x["text"]) < 1200]
    for name, t in corpus.pp_testcases()[: (20 if quick else 60)]:
        bases.append(t)
    for i in range(20 if quick else 200):
        u = gen.U()
        bases.append(pp.render_file(gen.finish_file(gen.mixed_program(rng, u))))
    import treecheck
    # layout variants with non-ASCII comments, CRLF and directives at line starts (what cuts and slices can trip over)
    bases += [treecheck.decorate(b, rng, heavy=True) for b in bases[:: 2]]
    texts = []
    for b in bases:
        vs = fault_variants(b, rng, 10 if quick else 40)
        if quick and len(vs) > 40:
            vs = rng.sample(vs, 40)
        texts += vs
    for _ in range(len(bases)):                          # splices
        a, b = rng.choice(bases), rng.choice(bases)
        texts.append(a[: rng.randrange(len(a) + 1)] + b[rng.randrange(len(b) + 1):])
    for _ in range(500 if quick else 10000):             # token soup
        texts.append(" ".join(rng.choice(ALPHA + ["a", "1", "x_y", "wire", "="]) for _ in range(rng.randint(1, 25))))
    for _ in range(300 if quick else 5000):              # byte noise (valid UTF-8 after lossy decoding)
        bs = bytes(rng.randrange(256) for _ in range(rng.randint(1, 60)))
        texts.append(bs.decode("utf-8", "replace"))
    # directives whose argument is degenerate: nothing, a blank, a comment, or a macro that expands to nothing / a blank /
    # a comment / one delimiter / an empty pair of delimiters (round-2 seeded change: `include `H with an empty expansion
    # indexed byte 0 of an empty string)
    PRELUDE = ("`define E\n`define B \n`define C // only a comment\n`define Q \"\n`define QQ \"\"\n`define LT <\n`define LG <>\n"
               "`define ID(x) x\n`define S \"s.svh\"\n`define W  \t \n")
    ARGS = ["", " ", "`E", "`B", "`C", "`Q", "`QQ", "`LT", "`LG", "`ID()", "`ID( )", "`ID(\"\")", "`ID(<>)", "`S", "`W", "/* c */", "// c", "\"\"", "<>", "\"", "<", "`", "`NOPE", "`ID", "`ID(", "\\"]
    DIRS = ["`include", "`define", "`undef", "`ifdef", "`ifndef", "`elsif", "`timescale", "`default_nettype", "`line", "`pragma", "`begin_keywords",
            "`unconnected_drive", "`E", "`ID"]
    dtexts = []
    for d in DIRS:
        for a in ARGS:
            for tail in ("\n", "\nmodule m; endmodule\n`endif\n", " x\n"):
                dtexts.append(PRELUDE + "pre " * (len(dtexts) % 2) + ("\n" if len(dtexts) % 2 else "") + d + " " + a + tail)
                dtexts.append(PRELUDE + d + a + tail)
    if quick:
        dtexts = rng.sample(dtexts, 700)
    texts += dtexts
    nfault = len(texts)
    texts += sweep_texts
    hcases = []
    for i, t in enumerate(texts):
        k = i % 6 if i < nfault else 0
        if k == 0:
            calls = [{"fn": "parse_sv_str", "path": "t.sv", "text": t, "fmt": True, "probe_nodes": 3}]
        elif k == 1:
            calls = [{"fn": "parse_sv_str", "path": "t.sv", "text": t, "allow_incomplete": True, "fmt": True}]
        elif k == 2:
            calls = [{"fn": "parse_lib_str", "path": "t.sv", "text": t, "fmt": True}]
        elif k == 3:
            calls = [{"fn": "preprocess_str", "path": "t.sv", "text": t, "strip_comments": True}, {"fn": "preprocess", "path": "t.sv", "strip_comments": True, "ignore_include": True},
                     {"fn": "preprocess", "path": "t.sv", "incdirs": ["inc"]}]
        elif k == 4:
            calls = [{"fn": "parse_sv", "path": "t.sv", "ignore_include": True, "fmt": True}, {"fn": "preprocess", "path": "t.sv"}]
        else:
            calls = [{"fn": "parse_lib", "path": "t.sv", "allow_incomplete": True, "fmt": True},
                     {"fn": "parse_sv_str", "path": "t.sv", "text": t, "defines": [{"name": "A", "none": True}, {"name": "M", "args": [["x", None]], "body": "x x"}]}]
        hcases.append({"id": i, "files": {"t.sv": t}, "calls": calls, "limit_ms": 30000})
    # raw bytes as file content (not valid UTF-8) and file faults
    for j in range(100 if quick else 2000):
        bs = [rng.randrange(256) for _ in range(rng.randint(1, 80))]
        hcases.append({"id": "b%d" % j, "files": {"t.sv": {"bytes": bs}, "top.sv": "`include \"t.sv\"\n"},
                       "calls": [{"fn": "parse_sv", "path": "t.sv"}, {"fn": "preprocess", "path": "top.sv"}, {"fn": "parse_lib", "path": "top.sv", "allow_incomplete": True}], "limit_ms": 30000})
    vlib.log("C08: %d cases" % len(hcases))
    results = vlib.run_cases(hcases, tag="c08", limit_ms=30000)
    recs = []
    hist = {}
    for h, res in zip(hcases, results):
        rs = res.get("results", [])
        for ci, rr in enumerate(rs):
            oc = rr.get("outcome")
            key = oc if oc != "err" else "err:" + rr["err"]["kind"]
            hist[key] = hist.get(key, 0) + 1
            msg = str(rr.get("msg", rr.get("rc", "")))[:200]
            # Locate::try_from is called on every node while the tree is dumped; a panic there is caught per node and
            # recorded as [-1,-1,-1] - for this property it is a panic of an entry point like any other
            tl = (rr.get("tree") or {}).get("try_loc") or []
            if oc == "ok" and any(x == [-1, -1, -1] for x in tl):
                oc, msg = "panic", "Locate::try_from panicked on node %d of the returned tree" % (1 + tl.index([-1, -1, -1]))
            recs.append({"id": "%s.%d" % (h["id"], ci), "kind": "typed", "outcome": str(oc), "msg": msg})
    bad, stats = vlib.tlc_validate("Api_Trace.tla", "Api_Trace.cfg", recs, tag="c08")
    v.add_tv("Api_Trace[typed]", stats, len(recs))
    byid = {str(h["id"]): h for h in hcases}
    for rid, reasons in bad.items():
        h = byid[rid.rsplit(".", 1)[0]]
        v.violation("input %s: %s" % (json.dumps(h["files"])[:300], "; ".join(reasons)[:400]), {"files": h["files"], "calls": h["calls"]})
    # exact values for file faults (Preproc file-system model)
    fcases = []
    for (c, note) in c10.seeded_cases(rng, 150 if quick else 2000):
        if note in ("bad_utf8", "missing_deep", "dirs", "macro_named"):
            c["id"] = "f%d" % len(fcases)
            fcases.append(c)
    frecs, fh, fres = ppcheck.build_run_records(fcases, "c08f", check_origins=False)
    by_id = {str(c["id"]): {"files": h["files"]} for c, h in zip(fcases, fh)}
    ppcheck.validate_with_deviations(v, "Preproc_Trace", frecs, by_id, "c08f", lambda rid: "file-fault case %s" % json.dumps(by_id[rid]["files"])[:300])
    v.cov["evaluations"] = len(recs) + len(frecs)
    v.cov["distinct_nontrivial"] = len({json.dumps(h["files"], sort_keys=True) for h in hcases})
    v.cov["outcome_histogram"] = dict(sorted(hist.items(), key=lambda x: -x[1]))
    v.cov["samples"] = [{"input": json.dumps(h["files"])[:200], "outcomes": [x.get("outcome") for x in r.get("results", [])]} for h, r in list(zip(hcases, results))[:: max(1, len(hcases) // 4)][:4]]
    v.assumptions = ["bracket nesting of generated inputs stays far below the depth that would exhaust the 512 MB worker stack (the statement excludes stack exhaustion by nesting alone)",
                     "a worker process death or time-out is an outcome the trace spec rejects"]
    return v.finish(level="fault_enumeration", rule="fault actions (truncate at every token boundary, delete/duplicate/transpose/insert one token, splice) on grammar sentences, corpus "
                    "snippets, preprocessor test cases and mixed programs; token soups; byte noise as text and as file content; file faults; each through "
                    "all six entry points round-robin with tree iteration, Display/Debug and Locate::try_from; non-trivial = distinct inputs", exhaustive=False)


def replay(path):
    print(json.dumps(json.load(open(path)), indent=1))
    return 0
