"""C10 — `include splices the named file with defines flowing in and out.

MC   MC_PreprocInc "resolve" universe (target present in every subset of {cwd,d1,d2}, every ordering of
     the include paths, ignore_include on/off; defines visible inside, definitions made inside visible
     after) and "graph" universe (nesting, same file twice, macros that expand to includes):
     machine = big-step reference with declarative file resolution; IgnoreInert.
GEN  both universes exported by TLC and executed in a materialised directory tree; seeded cases for
     both quoting styles, macro-named files, absolute names, fan-out, same file twice, non-UTF-8 and
     missing targets behind 1-2 include levels, and every placement of the directive on its line.
TV   Preproc_Trace: tokens, define table after, error (Include{File{path}}, IncludeLine, ReadUtf8),
     file opened (origin file of the spliced tokens).
"""
import random, json
import vlib, pp, ppcheck


def placement_cases(rng):
    """every placement of the directive relative to other items on its line"""
    out = []
    inc_file = [pp.tok("inc1"), pp.nl(), pp.define("FROMINC", None, [pp.bt("lit", "fi")]), pp.nl()]

    def mk(top, note):
        out.append(({"files": {"top.sv": top, "x.svh": [dict(i) for i in inc_file]}, "top": "top.sv"}, note))
    I = lambda: pp.inc("x.svh")
    mk([pp.tok("a"), pp.nl(), I(), pp.nl(), pp.tok("b"), pp.nl()], "alone")
    mk([pp.tok("a"), I(), pp.nl()], "token before (run starts on the line)")
    mk([I(), pp.tok("b"), pp.nl()], "token after")
    mk([pp.cmt(" c "), I(), pp.nl()], "comment before")
    mk([I(), pp.cmt(" c "), pp.nl()], "comment after")
    mk([I(), pp.cmt(" lc", block=False), pp.nl()], "line comment after")
    mk([I(), I(), pp.nl()], "two includes on one line")
    mk([pp.kept("`celldefine"), I(), pp.nl()], "kept directive before")
    mk([I(), pp.kept("`celldefine"), pp.nl()], "kept directive after")
    mk([pp.define("A", None, None), pp.nl(), pp.use("A"), I(), pp.nl()], "usage before")
    mk([I(), pp.use("FROMINC"), pp.nl()], "usage after")
    mk([pp.ifdef("NOPE"), I(), pp.endif(), pp.nl(), pp.tok("t"), pp.nl()], "inside a dead branch with company")
    mk([pp.ifdef("NOPE"), pp.nl(), pp.tok("q"), I(), pp.nl(), pp.endif(), pp.nl()], "dead include with a token on its line")
    # known finding D10: the implementation only looks at the line on which a run / directive starts
    mk([pp.tok("a"), pp.nl(), pp.tok("b"), I(), pp.nl()], "D10: token before, run started on an earlier line")
    mk([pp.strlit('"s"'), I(), pp.nl()], "D10: string literal before")
    mk([I(), pp.strlit('"s"'), pp.nl()], "D10: string literal after")
    mk([pp.tok("a"), pp.nl(), pp.nl(), pp.tok("b"), pp.tok("c"), I(), pp.nl()], "D10: two tokens before, run started earlier")
    return out


def seeded_cases(rng, n):
    out = []
    for i in range(n):
        u = [0]

        def t(p="s"):
            u[0] += 1
            return pp.tok("%s%03d" % (p, u[0]))
        kind = rng.choice(["forms", "macro_named", "twice", "fanout", "bad_utf8", "missing_deep", "abs", "defs_flow", "ignore", "dirs", "subdir"])
        files = {}
        fs_extra = {}
        incdirs = []
        ign = False
        predef = []
        topname = "top.sv"
        if kind == "subdir":
            # the top-level file lies in a sub-directory; a header beside it is found only through an include path
            topname = "sub/top.sv"
            files["sub/x.svh"] = [t("beside"), pp.nl()]
            if rng.random() < 0.5:
                incdirs = ["sub"]
            if rng.random() < 0.3:
                files["x.svh"] = [t("cwd"), pp.nl()]
            top = [t(), pp.nl(), pp.inc("x.svh", form=rng.choice([0, 1])), pp.nl(), t(), pp.nl()]
        elif kind == "forms":
            files["x.svh"] = [t(), pp.nl()]
            top = [t(), pp.nl(), pp.inc("x.svh", form=rng.choice([0, 1])), pp.nl(), t(), pp.nl()]
        elif kind == "macro_named":
            files["x.svh"] = [t(), pp.nl()]
            top = [pp.define("FN", None, [pp.bt("str", '"x.svh"')]), pp.nl(), t(), pp.nl(), pp.inc("FN", form=2), pp.nl(), t(), pp.nl()]
            r_ = rng.random()
            if r_ < 0.3:
                top[0] = pp.define("OTHER", None, [pp.bt("lit", "o")])   # FN undefined => DefineNotFound
            elif r_ < 0.45:
                top[0] = pp.define("FN", None, None)                      # no body: the name is empty => Include{File{""}}
            elif r_ < 0.55:
                top[0] = pp.define("FN", None, [pp.bt("lit", "x.svh")])   # unquoted name
            elif r_ < 0.65:
                top[0] = pp.define("FN", None, [pp.bt("str", '"nowhere.svh"')])
            elif r_ < 0.85:
                # the name is followed by a // comment (the blank in front of it survives the expansion: the text has to be
                # trimmed BEFORE the quotes are taken off)
                top[0] = pp.define("FN", None, [pp.bt("str", '"x.svh"'), pp.bt("lcmt", "the header")])
        elif kind == "twice":
            files["x.svh"] = [t(), pp.nl(), pp.ifndef("GUARD"), pp.nl(), pp.define("GUARD", None, None), pp.nl(), t(), pp.nl(), pp.endif(), pp.nl()]
            top = [pp.inc("x.svh"), pp.nl(), t(), pp.nl(), pp.inc("x.svh"), pp.nl(), pp.ifdef("GUARD"), t(), pp.endif(), pp.nl()]
        elif kind == "fanout":
            files["p.svh"] = [t(), pp.nl(), pp.define("P", None, [pp.bt("lit", "pv")]), pp.nl()]
            files["q.svh"] = [pp.use("P"), t(), pp.nl(), pp.inc("r.svh"), pp.nl()]
            files["r.svh"] = [t(), pp.nl(), pp.undef("P"), pp.nl()]
            top = [pp.inc("p.svh"), pp.nl(), pp.inc("q.svh"), pp.nl(), pp.ifdef("P"), t("yes"), pp.else_(), t("no"), pp.endif(), pp.nl()]
        elif kind == "bad_utf8":
            depth = rng.choice([0, 1, 2])
            names = ["l%d.svh" % k for k in range(depth)] + ["bad.svh"]
            fs_extra["bad.svh"] = "bad"
            for k in range(depth):
                files[names[k]] = [t(), pp.nl(), pp.inc(names[k + 1]), pp.nl()]
            top = [t(), pp.nl(), pp.inc(names[0]), pp.nl(), t(), pp.nl()]
        elif kind == "missing_deep":
            depth = rng.choice([0, 1, 2])
            names = ["l%d.svh" % k for k in range(depth)] + ["nothere.svh"]
            for k in range(depth):
                files[names[k]] = [t(), pp.nl(), pp.inc(names[k + 1]), pp.nl()]
            top = [t(), pp.nl(), pp.inc(names[0], form=rng.choice([0, 1])), pp.nl(), t(), pp.nl()]
            incdirs = rng.choice([[], ["d1"], ["d1", "d2"]])
            if incdirs:
                fs_extra["d1"] = "dir"
        elif kind == "abs":
            files["sub/x.svh"] = [t(), pp.nl()]
            top = [t(), pp.nl(), pp.inc("sub/x.svh"), pp.nl(), t(), pp.nl()]
        elif kind == "defs_flow":
            files["x.svh"] = [pp.ifdef("BEFORE"), t("sees"), pp.endif(), pp.nl(), pp.use("BEFORE"), pp.nl(), pp.define("INSIDE", [("a", None)], [pp.bt("id", "a"), pp.bt("lit", "+"), pp.bt("lit", "1")]), pp.nl(),
                              pp.undef("GONE"), pp.nl()]
            top = [pp.define("BEFORE", None, [pp.bt("lit", "bv")]), pp.nl(), pp.define("GONE", None, [pp.bt("lit", "gv")]), pp.nl(), pp.inc("x.svh"), pp.nl(),
                   pp.use("INSIDE", [[pp.bt("lit", "k")]]), pp.nl(), pp.ifdef("GONE"), t("still"), pp.else_(), t("gone"), pp.endif(), pp.nl()]
        elif kind == "ignore":
            ign = True
            if rng.random() < 0.5:
                files["x.svh"] = [t("never"), pp.nl(), pp.define("NOTDEF", None, None), pp.nl()]
            top = [t(), pp.nl(), pp.inc("x.svh", form=rng.choice([0, 1])), pp.nl(), pp.ifdef("NOTDEF"), t("bad"), pp.endif(), t(), pp.nl(), pp.tok("q"), pp.inc("y.svh"), pp.nl()]
        else:  # dirs
            places = [p for p in ("", "d1/", "d2/", "d3/") if rng.random() < 0.5]
            for p in places:
                files[p + "x.svh"] = [pp.tok("in_" + (p[:-1] or "cwd")), pp.nl()]
            incdirs = [d for d in ("d1", "d2", "d3") if rng.random() < 0.7]
            rng.shuffle(incdirs)
            for d in incdirs:
                if not any(k.startswith(d + "/") for k in files):
                    fs_extra[d] = "dir"
            top = [t(), pp.nl(), pp.inc("x.svh", form=rng.choice([0, 1])), pp.nl(), t(), pp.nl()]
        files[topname] = top
        out.append(({"files": files, "top": topname, "incdirs": incdirs, "ign": ign, "fs_extra": fs_extra, "predef": predef}, kind))
        if rng.random() < 0.15:
            out[-1][0]["nl"] = "\r\n"         # CRLF line ends in every file of the case
    return out


def run(tier, seed):
    v = vlib.Verdict("C10", tier, seed)
    vlib.build_harness()
    rng = random.Random(seed)
    quick = tier == "quick"
    for c in ("resolve", "graph"):
        r = vlib.tlc_model_check("MC_PreprocInc.tla", "MC_PreprocInc_%s.cfg" % c, workers=8, extra=["-coverage", "1"])
        v.add_mc("MC_PreprocInc_" + c, r, "MachineEqualsRef (declarative resolution), IgnoreInert, DepthBounded")
    cases = []
    by_id = {}
    nid = 0
    ex, r = vlib.tlc_export("MC_PreprocInc.tla", "MC_PreprocInc_gen_resolve.cfg", workers=2)
    v.add_mc("MC_PreprocInc_gen_resolve", r, "GEN export %d file-system configurations" % len(ex))
    for e in ex:
        nid += 1
        c = ppcheck.case_from_env_json(e, nid)
        for d in c["incdirs"]:
            if not any(k.startswith(d + "/") for k in c["files"]):
                c["fs_extra"][d] = "dir"
        c["fn"] = "preprocess" if nid % 2 else "preprocess_str"
        cases.append(c)
        by_id[str(nid)] = {"kind": "resolve", "present": [f["p"] for f in e["fs"]], "incdirs": e["incdirs"], "ign": e["ign"]}
    ex, r = vlib.tlc_export("MC_PreprocInc.tla", "MC_PreprocInc_gen_graph.cfg", workers=4)
    v.add_mc("MC_PreprocInc_gen_graph", r, "GEN export %d graphs" % len(ex))
    rng.shuffle(ex)
    for e in ex[: (1200 if quick else len(ex))]:
        nid += 1
        cases.append(ppcheck.case_from_env_json(e, nid))
        by_id[str(nid)] = {"kind": "graph"}
    for (c, note) in placement_cases(rng):
        nid += 1
        c["id"] = nid
        cases.append(c)
        by_id[str(nid)] = {"kind": "placement: " + note}
    for (c, note) in seeded_cases(rng, 400 if quick else 5000):
        nid += 1
        c["id"] = nid
        cases.append(c)
        by_id[str(nid)] = {"kind": note}
    vlib.log("C10: %d cases" % len(cases))
    records, hcases, results = ppcheck.build_run_records(cases, "c10", check_origins=True)
    for c, h in zip(cases, hcases):
        by_id[str(c["id"])]["files"] = h["files"]
        by_id[str(c["id"])]["incdirs"] = c.get("incdirs")
    v.cov["evaluations"] = len(cases)
    hist = {}
    for rr in records:
        o = rr["obs"]
        k = o["outcome"] if o["outcome"] != "err" else "err:" + json.dumps(o["err"])[:60]
        hist[k] = hist.get(k, 0) + 1
    v.cov["outcome_histogram"] = dict(sorted(hist.items(), key=lambda x: -x[1])[:15])
    v.cov["distinct_nontrivial"] = len({json.dumps(by_id[str(c["id"])]["files"], sort_keys=True) + json.dumps(c.get("incdirs")) for c in cases if len(c["files"]) > 1 or c.get("fs_extra")})
    v.cov["samples"] = [{"kind": by_id[str(c["id"])]["kind"], "files": by_id[str(c["id"])]["files"], "incdirs": c.get("incdirs"), "outcome": rr["obs"]["outcome"],
                         "err": rr["obs"]["err"], "tokens": [t["t"] for t in rr["obs"]["toks"]][:40]} for c, rr in list(zip(cases, records))[-3:]]
    # ignore_include through EVERY entry point, with the named file present and absent (round-5 seeded change: parse_lib_str
    # passed the flag in the wrong position)
    import tree
    IGN = [("sv", "module m; wire a;\n`include \"gone.svh\"\nendmodule\n`include <x.svh>\n"),
           ("sv", "`include \"x.svh\"\nmodule m; `W w; endmodule\n"),
           ("lib", "library l a.v;\n`include \"gone.svh\"\nlibrary k b.v;\n`include \"x.svh\"\n")]
    icases = []
    for j, (fam, text) in enumerate(IGN):
        for present in (False, True):
            files = {"top.sv": text}
            if present:
                files["x.svh"] = "`define W wire\n"
                files["gone.svh"] = "`define G 1\n"
            fns = ["preprocess", "preprocess_str"] + (["parse_sv", "parse_sv_str", "two_step_sv", "two_step_sv_str"] if fam == "sv" else ["parse_lib", "parse_lib_str", "two_step_lib", "two_step_lib_str"])
            calls = []
            for fn in fns:
                cc = {"fn": fn, "path": "top.sv", "ignore_include": True, "defines": [{"name": "W", "body": "wire"}]}
                if fn.endswith("_str"):
                    cc["text"] = text
                calls.append(cc)
            icases.append({"id": "ign%d%d" % (j, present), "files": files, "calls": calls, "fresh_each": True})
    ires = vlib.run_cases(icases, tag="c10i")
    irecs = []
    for h, res in zip(icases, ires):
        irecs.append({"id": h["id"], "kind": "ign", "calls": [{"fn": c["fn"], "fam": "pp" if c["fn"].startswith("preprocess") else "parse", "res": tree.result_summary(rr)}
                                                              for c, rr in zip(h["calls"], res["results"])]})
        by_id[h["id"]] = {"files": h["files"]}
    ibad, istats = vlib.tlc_validate("Api_Trace.tla", "Api_Trace.cfg", irecs, tag="c10i")
    v.add_tv("Api_Trace[ign]", istats, len(irecs))
    for rid, reasons in ibad.items():
        v.violation("ignore_include %s: %s" % (json.dumps(by_id[rid]["files"])[:300], "; ".join(reasons)[:300]), by_id[rid])
    ppcheck.validate_with_deviations(v, "Preproc_Trace", records, by_id, "c10",
                                     lambda rid: "%s files=%s incdirs=%s" % (by_id[rid]["kind"], json.dumps(by_id[rid].get("files"))[:400], by_id[rid].get("incdirs")))
    v.assumptions = ["renderer/tokeniser of lib/pp.py", "the case's directory tree is materialised under work/fs and is the process's working directory"]
    return v.finish(rule="resolve universe (8 presence patterns x 5 include-path orders x ignore_include) and include graphs exported by TLC, "
                         "17 line placements, seeded cases of 10 kinds; non-trivial = distinct file systems with >1 file or a faulty target",
                    exhaustive=False)


def replay(path):
    print(json.dumps(json.load(open(path)), indent=1))
    return 0
