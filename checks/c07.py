"""C07 — results depend only on the arguments, not on what the thread did before.

MC   MC_ParserState: EntryFresh and ScopeAgrees for every history of calls drawn from inputs that leave
     residue (open `begin_keywords region, failed directive, bounded memo); refutation config: an Entry
     that does not clear the version stack makes the probe's verdicts depend on the history.
GEN  call alphabet = entry point (preprocess_str, parse_sv_str strict / incomplete, parse_lib_str, the raw nom
     entry points sv_parser / lib_parser / pp_parser on a PERSISTENT buffer whose text pointer never
     changes) x input class (accepted, rejected by the preprocessor, rejected deep inside a description,
     recursion limit hit, unclosed `begin_keywords "1364-2001", `resetall first, malformed directive, library text);
     all histories up to the tier's length followed by every probe.  Argument-varying family: inputs with
     `include / `ifdef whose result depends on include paths, caller defines and flags; every (entry, input,
     arguments) probe after calls on the same inputs with OTHER arguments.
TV   Api_Trace kind "hist": probe after the history (same thread) = probe on a fresh thread.  The thread
     state snapshots between calls are recorded as evidence of non-vacuity only.
"""
import random, json, itertools
import vlib, tree

INPUTS = {
    "accepted": "module m; wire logic_w; assign logic_w = 1; endmodule\n",
    "accepted2": "module n(input a, output b); assign b = ~a; endmodule\n",
    "uses_new_kw": "module o; logic x; always_comb x = 1; endmodule\n",            # rejected iff an old keyword set leaked in... accepted by default
    "old_ident": "module p; reg logic; endmodule\n",                                # 'logic' as identifier: rejected by default
    "pp_reject": "module m; \"unterminated\nendmodule\n",
    "parse_reject_deep": "module m; initial begin if (a) x = ; end endmodule\n",
    "recursion": "`define R `R\nmodule m; `R endmodule\n",
    "open_region": "`begin_keywords \"1364-2001\"\nmodule q; reg logic; endmodule\n",
    "open_region_twice": "`begin_keywords \"1364-2001\"\n`begin_keywords \"1364-1995\"\nmodule r; endmodule\n",
    "resetall_first": "`resetall\nmodule s; endmodule\n",
    "bad_directive": "module t; `define\nendmodule\n",
    "undefined_macro": "module u; `NOPE endmodule\n",
    "library": "library l a.v, b.v;\ninclude \"x.map\";\n",
    # calls the preprocessor rejects in the middle of a directive (round-2 seeded change: a directive parser that leaves
    # its IN_DIRECTIVE entry behind on failure + an entry that no longer clears that stack)
    "unterminated_ifdef": "`ifdef A\nmodule m; endmodule\n",
    "bad_timescale": "`timescale 1ns\nmodule m; endmodule\n",
    "stray_backtick": "module m; ` endmodule\n",
    "include_noname": "`include\nmodule m; endmodule\n",
    "stray_else": "module m; `else endmodule\n",
    "bad_nettype": "`default_nettype foo\nmodule m; endmodule\n",
    # probes whose result depends on the directive stack: comments, kept directives, a string followed by a line break
    "with_comments": "// head\nmodule c; /* c */ wire w; // t\n/* m\n l */ endmodule // end\n",
    "kept_directives": "`timescale 1ns/1ps\n`default_nettype none\nmodule d; `celldefine wire w; `endcelldefine endmodule\n",
    "string_nl": "import \"DPI-C\"\n  function void f();\nmodule e; endmodule\n",
    "lib_kw": "library logic *.v, rtl/top.sv;\ninclude x.map;\n",      # a library map whose library name is reserved in 1800 but not in 1364
    "big": "module v; " + " ".join("wire w%d;" % i for i in range(400)) + " endmodule\n",
}
# inputs whose result depends on the OTHER arguments of the call (include paths, caller defines, flags): a history
# that resolved the same include name through another path, or ran with other defines / flags, must not show
# (round-6 seeded change: a thread-local memo of resolved include names, cleared by the file entry point only)
ENV_FILES = {"d1/h.svh": "`define H wire a1;\n", "d2/h.svh": "`define H wire b2;\nwire from_d2;\n", "d1/only1.svh": "wire only1;\n",
             "d2/sub/n.svh": "wire n2;\n", "d1/sub/n.svh": "wire n1;\n"}
ENV_INPUTS = {
    "inc_h": "`include \"h.svh\"\nmodule m; `H endmodule\n",
    "inc_only1": "module m;\n`include \"only1.svh\"\nendmodule\n",
    "inc_sub": "module m;\n`include \"sub/n.svh\"\nendmodule // c\n",
    "ifdef_k": "`ifdef K\nmodule k1; /* c */ endmodule\n`else\nmodule k0; endmodule\n`endif\n`ifdef L\nwire `L;\n`endif\n",
}
ENV_ARGS = [
    {"incdirs": ["d1"]}, {"incdirs": ["d2"]}, {"incdirs": []}, {"incdirs": ["d2", "d1"]}, {"incdirs": ["d1", "d2"]},
    {"incdirs": ["d1"], "defines": [{"name": "K", "none": True}]},
    {"incdirs": ["d2"], "defines": [{"name": "L", "body": "lw", "args": []}], "strip_comments": True},
    {"incdirs": ["d1"], "ignore_include": True},
]
ENV_ENTRIES = ["preprocess_str", "parse_sv_str", "parse_sv_str_inc", "parse_lib_str"]


def env_call(entry, inp, args):
    c = {"fn": entry.replace("_inc", ""), "path": "t.sv", "text": ENV_INPUTS[inp], "state": True}
    if entry.endswith("_inc"):
        c["allow_incomplete"] = True
    c.update(args)
    return c


ENTRIES = ["preprocess_str", "parse_sv_str", "parse_sv_str_inc", "parse_lib_str", "raw_sv", "raw_lib", "raw_pp", "raw_sv_incomplete", "raw_lib_incomplete"]


def call(entry, inp):
    text = INPUTS[inp]
    if entry.startswith("raw_"):
        return {"fn": entry, "text": text, "buf": 0, "state": True}
    c = {"fn": entry.replace("_inc", ""), "path": "t.sv", "text": text, "state": True}
    if entry.endswith("_inc"):
        c["allow_incomplete"] = True
    return c


def run(tier, seed):
    v = vlib.Verdict("C07", tier, seed)
    vlib.build_harness()
    rng = random.Random(seed)
    quick = tier == "quick"
    r = vlib.tlc_model_check("MC_ParserState.tla", "MC_ParserState_%s.cfg" % ("faithful" if quick else "faithful3"), workers=8, extra=["-coverage", "1"])
    v.add_mc("MC_ParserState_faithful", r, "EntryFresh, ScopeAgrees for all histories of the model")
    r = vlib.tlc_model_check("MC_ParserState.tla", "MC_ParserState_refute_entry_ver.cfg", workers=4, expect_violation=True)
    v.add_mc("MC_ParserState_refute_entry_ver", r, "refutation: Entry without clear_version makes the probe depend on the history")
    ops = [(e, i) for e in ENTRIES for i in INPUTS]
    # polluting operations (those that can leave residue) are used as history elements
    polluters = [(e, i) for (e, i) in ops if i in ("open_region", "open_region_twice", "resetall_first", "bad_directive", "recursion", "parse_reject_deep",
                                                    "pp_reject", "big", "library", "accepted", "old_ident",
                                                    "unterminated_ifdef", "bad_timescale", "stray_backtick", "include_noname", "stray_else", "bad_nettype")]
    probe_inputs = ["accepted", "uses_new_kw", "old_ident", "open_region", "library", "parse_reject_deep", "pp_reject", "resetall_first",
                    "with_comments", "kept_directives", "string_nl", "lib_kw"]
    probes = [(e, i) for (e, i) in ops if i in probe_inputs]
    hists = [(p,) for p in polluters]
    pairs = list(itertools.product(polluters, polluters))
    rng.shuffle(pairs)
    hists += pairs[: (150 if quick else 2500)]
    if not quick:
        triples = [tuple(rng.choice(polluters) for _ in range(3)) for _ in range(1500)]
        hists += triples
    cases = []
    meta = []
    pi = 0
    for h in hists:
        # every probe input after every history, through a rotating entry point (thorough: two entry points)
        ps = [(ENTRIES[(pi + k + j * 3) % len(ENTRIES)], inp) for k, inp in enumerate(probe_inputs) for j in range(1 if quick else 2)]
        pi += 1
        for p in ps:
            cases.append({"id": len(cases), "calls": [call(*x) for x in h] + [call(*p)]})
            meta.append((h, p))
    # argument-varying family: every (entry, input, arguments) probe after histories of one or two calls on the same
    # inputs with OTHER arguments
    eops = [(e, i, a) for e in ENV_ENTRIES for i in ENV_INPUTS for a in range(len(ENV_ARGS))]
    ecases, emeta = [], []
    for p in eops:
        others = [o for o in eops if o[2] != p[2]]
        same_in = [o for o in others if o[1] == p[1]]
        hs = [(o,) for o in rng.sample(same_in, 3 if quick else 10)] + [tuple(rng.sample(others, 2)) for _ in range(1 if quick else 6)]
        for h in hs:
            ecases.append({"id": "e%d" % len(ecases), "files": ENV_FILES, "calls": [env_call(x[0], x[1], ENV_ARGS[x[2]]) for x in h + (p,)]})
            emeta.append((h, p))
    efresh_cases = [{"id": "ef%d" % i, "files": ENV_FILES, "calls": [env_call(p[0], p[1], ENV_ARGS[p[2]])]} for i, p in enumerate(eops)]
    eres = vlib.run_cases(ecases, tag="c07e", limit_ms=120000)
    efres = vlib.run_cases(efresh_cases, tag="c07ef")
    efresh = {p: tree.result_summary(r["results"][0]) for p, r in zip(eops, efres)}
    erecs = [{"id": c["id"], "kind": "hist", "fresh": efresh[p], "after": tree.result_summary(r["results"][-1])} for c, r, (h, p) in zip(ecases, eres, emeta)]
    fresh_cases = [{"id": "f%d" % i, "calls": [call(*p)]} for i, p in enumerate(probes)]
    vlib.log("C07: %d histories x probes = %d cases" % (len(hists), len(cases)))
    res = vlib.run_cases(cases, tag="c07", limit_ms=120000)
    fres = vlib.run_cases(fresh_cases, tag="c07f")
    fresh = {p: tree.result_summary(r["results"][0]) for p, r in zip(probes, fres)}
    recs = []
    residue = 0
    for c, r, (h, p) in zip(cases, res, meta):
        rs = r["results"]
        after = tree.result_summary(rs[-1])
        recs.append({"id": str(c["id"]), "kind": "hist", "fresh": fresh[p], "after": after})
        if any(x.get("state", {}).get("ver") or x.get("state", {}).get("dir") for x in rs[:-1]):
            residue += 1
    bad, stats = vlib.tlc_validate("Api_Trace.tla", "Api_Trace.cfg", recs + erecs, tag="c07")
    v.add_tv("Api_Trace[hist]", stats, len(recs) + len(erecs))
    v.cov["argument_varying_cases"] = len(erecs)
    v.cov["argument_varying_distinct_fresh_results"] = len({json.dumps(x, sort_keys=True) for x in efresh.values()})
    for rid, reasons in bad.items():
        if rid.startswith("e"):
            h, p = emeta[int(rid[1:])]
            show = lambda x: [x[0], x[1], ENV_ARGS[x[2]]]
            v.violation("history %s probe %s: %s" % ([show(x) for x in h], show(p), "; ".join(reasons)[:400]),
                        {"files": ENV_FILES, "history": [show(x) for x in h], "probe": show(p), "inputs": ENV_INPUTS})
            continue
        h, p = meta[int(rid)]
        v.violation("history %s probe %s: %s" % (list(h), p, "; ".join(reasons)[:400]), {"history": [list(x) for x in h], "probe": list(p), "inputs": {i: INPUTS[i] for i in {x[1] for x in h} | {p[1]}}})
    v.cov["evaluations"] = len(cases)
    v.cov["distinct_nontrivial"] = residue
    v.cov["histories"] = len(hists)
    v.cov["samples"] = [{"history": [list(x) for x in meta[i][0]], "probe": list(meta[i][1]), "result_after": recs[i]["after"]["outcome"], "thread_state_between_calls": [x.get("state") for x in res[i]["results"]]} for i in (0, len(cases) // 2, len(cases) - 1)]
    v.assumptions = ["results are compared through fingerprints (tree: kinds, events, token locations; text; define table; error)",
                     "non-trivial = histories after which the thread-local version or directive stack was observed non-empty before the probe"]
    return v.finish(rule="histories of length 1 (all), 2 (sampled pairs) and - thorough - 3 over %d polluting operations, followed by %d probes; each history on one "
                         "fresh thread, each probe's reference on another" % (len(polluters), len(probes)), exhaustive=False)


def replay(path):
    print(json.dumps(json.load(open(path)), indent=1))
    return 0
