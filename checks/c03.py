"""C03 — the origin map sends every output byte back to the file and offset it came from.

IND  OriginsInd (Apalache): the map tiles [0, total) - inductive over push and merge for arbitrary integer offsets and
     lengths (maps of up to 8 entries drawn symbolically), and implies that the probe of origin(p) lands on the entry
     containing p; refutation: with empty pushes inserted the step fails (D8).
MC   MC_Origins: B-tree lookup with the overlapping-ranges ordering = segment the byte was
     pushed with, for every push/merge sequence of the bound; refutation config (empty pushes
     not skipped) must produce the counterexample (D8).
GEN  programs of the conditional / macro / include universes (TLC-exported) and seeded mixes,
     rendered with unique tokens and irregular blank runs.
TV   Preproc_Trace (token origins: copied / expanded / synthesised; blank-run rules),
     Origins_Trace (push/merge hook events replayed through the Origins machine; every byte's
     origin(p) against the transcribed map and against the pushed segments; get_origin of leaves).
"""
import random, json
import vlib, pp, ppcheck, gen
import c04, c05

HOOKS = ["pp_enter", "pp_leave", "push", "merge"]


def hook_events(hooks):
    evs = []
    for h in hooks:
        k = h["k"]
        if k == "pp_enter":
            evs.append({"k": "enter", "len": 0, "has": False, "src": "", "ob": 0})
        elif k == "pp_leave":
            evs.append({"k": "leave", "len": 0, "has": False, "src": "", "ob": 0})
        elif k == "push":
            n = h["n"]
            evs.append({"k": "push", "len": n[1], "has": bool(n[2]), "src": h["s"][0] if h["s"] else "", "ob": n[3]})
        elif k == "merge":
            evs.append({"k": "merge", "len": h["n"][1], "has": False, "src": "", "ob": 0})
    return evs


def include_programs(rng, n):
    """top file including a.svh (which may include b.svh), macros defined in one file and used in another,
    empty expansions, usages directly followed by text"""
    out = []
    for i in range(n):
        u = [0]

        def t():
            u[0] += 1
            return pp.tok("w%03d" % u[0])
        b = [t(), pp.nl(), pp.define("MB", None, [pp.bt("lit", "mb1"), pp.bt("lit", "mb2")]), pp.nl(), t(), pp.nl()]
        a = [t(), pp.nl()]
        if rng.random() < 0.7:
            a += [pp.inc("b.svh"), pp.nl()]
            if rng.random() < 0.5:
                a += [pp.use("MB"), t(), pp.nl()]
        a += [pp.define("MA", [("p", None)], [pp.bt("lit", "ma"), pp.bt("id", "p")]), pp.nl()]
        if rng.random() < 0.5:
            a += [pp.define("E", None, None), pp.nl()]
        else:
            a += [pp.define("E", None, []), pp.nl()]
        a += [t(), pp.nl()]
        top = [t(), pp.nl()]
        if rng.random() < 0.5:
            # multi-byte characters ahead of an `include: byte offsets and character counts part ways
            top += [pp.cmt(" \u00a9 \u00e9%d \u65e5\u672c " % i, block=rng.random() < 0.5), pp.nl()]
            a = [pp.cmt(" \u00fc ", block=True), pp.nl()] + a
        top += [pp.inc("a.svh", form=rng.choice([0, 1])), pp.nl(), t(), pp.use("MA", [[pp.bt("lit", "arg%d" % i)]]), t(), pp.nl()]
        if rng.random() < 0.5:
            # the same macro text written a second time in another file: the definition IN FORCE is the later one, and
            # the bytes of its expansions come from there (round-3 seeded change: identical redefinition skipped)
            top += [pp.define("MA", [("p", None)], [pp.bt("lit", "ma"), pp.bt("id", "p")]), pp.nl(), t(), pp.use("MA", [[pp.bt("lit", "again%d" % i)]]), pp.nl()]
        if rng.random() < 0.7:
            top += [pp.use("E"), t(), pp.nl()]          # empty expansion followed by text
        if rng.random() < 0.5:
            # a parenthesised group behind a body-less macro, with and without white space in front of the "(": the group
            # is ordinary text whose bytes keep their own offsets (round-4 seeded change: offset taken at the end of the name)
            u1 = pp.use("E", [[pp.bt("lit", "g%da" % i)], [pp.bt("lit", "g%db" % i)]])
            u1["sp"] = True
            top += [t(), u1, t(), pp.use("E", [[pp.bt("lit", "h%d" % i)]]), pp.nl()]
            u2 = pp.use("MA", [[pp.bt("lit", "spaced%d" % i)]])
            u2["sp"] = True
            top += [u2, t(), pp.nl()]
        if rng.random() < 0.5:
            top += [pp.use("MA", [[pp.bt("lit", "q")]], g=True), pp.tok("glued"), pp.nl()]     # usage directly followed by text
        if rng.random() < 0.5:
            top += [pp.pos("__FILE__"), pp.pos("__LINE__"), t(), pp.nl()]
        if rng.random() < 0.5:
            top += [pp.ifdef("MA"), t(), pp.else_(), t(), pp.endif(), t(), pp.nl()]
        if rng.random() < 0.5:
            top += [pp.kept("`celldefine"), pp.nl(), t(), pp.kept("`timescale 1ns/1ps"), pp.nl(), pp.kept("`default_nettype none"), pp.nl()]
        if rng.random() < 0.4:
            top += [pp.cmt(" c%d " % i), t(), pp.nl(), pp.cmt(" line", block=False), pp.nl()]
        files = {"top.sv": top, "a.svh": a, "b.svh": b}
        predef = []
        if rng.random() < 0.4:
            predef = [pp.predef_entry("CS", body=[pp.bt("lit", "cs1"), pp.bt("lit", "cs2")])]
            top += [pp.use("CS"), t(), pp.nl()]
        out.append({"files": files, "top": "top.sv", "predef": predef})
    return out


SV_TEMPLATES = [
    ("`define W 8\n`define MAX(a,b) ((a) > (b) ? (a) : (b))\nmodule m #(parameter P = `W) (input logic [`W-1:0] x, output logic y);\n`include \"decl.svh\"\n  assign y = `MAX(x, w) > P;\n`ifdef SYNTH\n  wire s;\n`else\n  wire ns;\n`endif\nendmodule\n",
     {"decl.svh": "  wire [`W-1:0] w;\n  // from include\n"}),
    ("`include \"pkg.svh\"\nmodule top;\n  import p::*;\n  `DECL(foo)\n  initial begin $display(`__FILE__, `__LINE__); end\nendmodule\n",
     {"pkg.svh": "package p;\n  typedef int t;\nendpackage\n`define DECL(n) t n;\n"}),
]


def run(tier, seed):
    v = vlib.Verdict("C03", tier, seed)
    vlib.build_harness()
    rng = random.Random(seed)
    quick = tier == "quick"
    # 1. model checking of the data structure
    r = vlib.tlc_model_check("MC_Origins.tla", "MC_Origins_quick.cfg" if quick else "MC_Origins.cfg", workers=8, extra=["-coverage", "1"])
    v.add_mc("MC_Origins", r, "LookupAgrees, KeysSorted (empty pushes skipped)")
    r = vlib.tlc_model_check("MC_Origins.tla", "MC_Origins_refute.cfg", workers=2, expect_violation=True)
    v.add_mc("MC_Origins_refute", r, "refutation: an empty push that is inserted shadows the next segment (D8 mechanism)")
    # 1b. the same structure over unbounded integer offsets / lengths: inductive invariant discharged by Apalache
    ap = []
    ap.append(("Init => IndInv", vlib.apalache_check("OriginsInd.tla", "ConstInitFixed", "Init", "IndInv", 0)))
    ap.append(("IndInv => LookupOk", vlib.apalache_check("OriginsInd.tla", "ConstInitFixed", "IndInit", "LookupOk", 0)))
    if not quick:
        ap.append(("IndInv /\\ Next => IndInv' (push, merge)", vlib.apalache_check("OriginsInd.tla", "ConstInitFixed", "IndInit", "IndInv", 1)))
        ap.append(("refutation: empty pushes inserted => step fails (D8)", vlib.apalache_check("OriginsInd.tla", "ConstInitBroken", "IndInit", "IndInv", 1, expect_error=True)))
    v.cov["apalache_obligations"] = [{"obligation": n, "wall_s": round(w, 1)} for n, w in ap]
    # 2. cases
    cases = []
    by_id = {}
    nid = 0
    ex, r = vlib.tlc_export("MC_PreprocCond.tla", "MC_PreprocCond_%s.cfg" % ("gen_wide4" if quick else "gen_wide5"), workers=4)
    v.add_mc("MC_PreprocCond_gen", r, "GEN export %d programs" % len(ex))
    rng.shuffle(ex)
    for p in ex[: (2500 if quick else 30000)]:
        nid += 1
        t = rng.choice([(0, 0), (1, 2), (2, 0), (2, 2)])
        items = c04.complete(p, rng, rng.random() < 0.6)
        cases.append({"id": nid, "files": {"top.sv": items}, "top": "top.sv", "predef": c04.table(t)})
        by_id[str(nid)] = {"kind": "cond", "prog": p, "table": t}
    ex, r = vlib.tlc_export("MC_PreprocMacro.tla", "MC_PreprocMacro_%s.cfg" % ("gen2" if quick else "gen3"), workers=4, timeout=3000)
    v.add_mc("MC_PreprocMacro_gen", r, "GEN export %d programs" % len(ex))
    rng.shuffle(ex)
    for e in ex[: (2000 if quick else 20000)]:
        nid += 1
        cases.append({"id": nid, "files": {"top.sv": c05.program_from_export(e)}, "top": "top.sv"})
        by_id[str(nid)] = {"kind": "macro", "export": e}
    for i in range(300 if quick else 4000):
        nid += 1
        cases.append({"id": nid, "files": {"top.sv": c05.rand_program(rng)}, "top": "top.sv"})
        by_id[str(nid)] = {"kind": "macro-seeded"}
    for c in include_programs(rng, 600 if quick else 6000):
        nid += 1
        c["id"] = nid
        cases.append(c)
        by_id[str(nid)] = {"kind": "include"}
    # the group written behind a macro WITHOUT formals is ordinary text that is restored behind the expansion and rescanned:
    # nested usages in it make the restored segment longer or shorter than its source range; whatever follows the closing
    # parenthesis - glued or not - must still map to its own bytes (round-7 seeded change: adjacent origin entries of one file
    # coalesced on the assumption that a segment's output is as long as its source range)
    for body in (None, [pp.bt("lit", "e1")]):
        for zbody in ([pp.bt("lit", "z")], [pp.bt("lit", "zz12345")], [pp.bt("lit", "a"), pp.bt("lit", "+"), pp.bt("lit", "b")], None):
            for inner in ([pp.bt("use", "Z")], [pp.bt("lit", "q"), pp.bt("use", "Z")], [pp.bt("use", "Z"), pp.bt("use", "Z")], [pp.bt("lit", "q")]):
                for glued in (True, False):
                    nid += 1
                    items = [pp.define("E", None, body), pp.nl(), pp.define("Z", None, zbody), pp.nl(), pp.tok("pre"),
                             pp.use("E", [inner], g=glued), pp.tok("+"), pp.tok("post"), pp.nl(), pp.tok("next"), pp.use("E", [inner, inner]), pp.tok("last"), pp.nl()]
                    cases.append({"id": nid, "files": {"top.sv": items}, "top": "top.sv"})
                    by_id[str(nid)] = {"kind": "restored-group"}
    for i in range(300 if quick else 4000):
        nid += 1
        cases.append({"id": nid, "files": {"top.sv": gen.finish_file(gen.mixed_program(rng, gen.U(), strings=False))}, "top": "top.sv"})
        by_id[str(nid)] = {"kind": "mixed"}
    for c in cases:
        c["blank"] = rng.choice([" ", "  ", " \t "])     # irregular blank runs make shifted offsets visible
        if rng.random() < 0.15:
            c["nl"] = "\r\n"                             # CRLF line ends (two bytes per line break in every offset)
    vlib.log("C03: %d cases" % len(cases))

    def extra(c, env, call, texts):
        call["hooks"] = HOOKS
        return []
    records, hcases, results = ppcheck.build_run_records(cases, "c03", check_origins=True, extra_calls=extra)
    maprecs = []
    nseg = 0
    for c, h, res, rec in zip(cases, hcases, results, records):
        by_id[str(c["id"])]["files"] = h["files"]
        r0 = res["results"][0]
        if r0.get("outcome") == "ok":
            evs = hook_events(r0.get("hooks", []))
            runs = [[a, b, p if p is not None else "", o] for (a, b, p, o) in r0["origins"]]
            maprecs.append({"id": "m%s" % c["id"], "kind": "orgmap", "events": evs, "runs": runs, "total": len(r0["text"].encode())})
            by_id["m%s" % c["id"]] = by_id[str(c["id"])]
            if len({x[2] for x in runs}) >= 2 and len(runs) >= 3:
                nseg += 1
    # get_origin of leaves on parseable sources
    leafrecs = []
    lcases = []
    for i, (src, incs) in enumerate(SV_TEMPLATES):
        for d in ([], [{"name": "SYNTH", "none": True}]):
            files = dict(incs)
            files["top.sv"] = src
            lcases.append({"id": "leaf%d_%d" % (i, len(d)), "files": files,
                           "calls": [{"fn": "two_step_sv", "path": "top.sv", "defines": d, "want_origins": True, "origins_of_leaves": True}]})
    lres = vlib.run_cases(lcases, tag="c03l")
    for c, res in zip(lcases, lres):
        r0 = res["results"][0]
        if r0.get("outcome") != "ok":
            # a panic / rejection of a plain template is data, not a tool failure
            v.violation("get_origin template %s: entry point returned %s: %s" % (c["id"], r0.get("outcome"), str(r0.get("msg", r0.get("err")))[:300]), {"files": c["files"]})
            by_id[c["id"]] = {"kind": "leaf", "files": c["files"]}
            continue
        runs = [[a, b, p if p is not None else "", o] for (a, b, p, o) in r0["origins"]]
        leaves = [[x[0], x[1] if x[1] is not None else "", x[2]] for x in r0["tree"]["leaf_origins"]]
        leafrecs.append({"id": c["id"], "kind": "leaf", "runs": runs, "leaves": leaves})
        by_id[c["id"]] = {"kind": "leaf", "files": c["files"]}
    v.cov["evaluations"] = len(cases) + len(lcases)
    v.cov["distinct_nontrivial"] = nseg
    v.cov["samples"] = [{"files": by_id[str(c["id"])]["files"], "origin_runs": res["results"][0].get("origins"), "text": res["results"][0].get("text")}
                        for c, res in list(zip(cases, results))[-3:]]
    ppcheck.validate_with_deviations(v, "Preproc_Trace", records, by_id, "c03",
                                     lambda rid: "%s files %s" % (by_id[rid]["kind"], json.dumps(by_id[rid].get("files"))[:400]))
    bad, stats = vlib.tlc_validate("Origins_Trace.tla", "Origins_Trace.cfg", maprecs + leafrecs, tag="c03m")
    v.add_tv("Origins_Trace", stats, len(maprecs) + len(leafrecs))
    for rid, reasons in bad.items():
        v.violation("%s files %s: %s" % (by_id[rid]["kind"], json.dumps(by_id[rid].get("files"))[:300], "; ".join(reasons)[:500]), by_id[rid])
    v.assumptions = ["renderer/tokeniser of lib/pp.py", "hook events push/merge/pp_enter/pp_leave are emitted at the call sites", "trace records reach TLC in byte view (vlib.byteview_json): one character inside TLC = one byte of the file"]
    return v.finish(rule="conditional/macro programs exported by TLC, seeded macro programs, include programs (3 files, macros crossing files, "
                         "empty expansions, glued usages, kept directives, __FILE__/__LINE__, caller-supplied macros); "
                         "non-trivial = successful runs whose origin map has >=3 runs from >=2 sources",
                    exhaustive=False)


def replay(path):
    print(json.dumps(json.load(open(path)), indent=1))
    return 0
