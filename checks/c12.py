"""C12 — trivia between tokens (blanks, comments, neutral directives) never alters the parse.

MC   MC_ParserState: DirectiveNeutral (a directive in trivia leaves the version stack as it found it) and
     ScopeAgrees under re-parsed trivia; refutation config for the unpaired macro-name site (D4 mechanism).
GEN  base sources = Grammar sentences (accepted) and one-fault damaged ones (rejected), tokens separated by
     single blanks; variants: the blank at EVERY inter-token position replaced by EVERY single-kind run of
     the Trivia language (sentences up to 25 tokens), seeded multi-kind runs at one or all positions,
     `resetall between top-level descriptions.
TV   Trivia_Trace: runs are in the language and rendered as specified; acceptance and whitespace-free
     skeleton of every variant equal the base's.
"""
import random, json
import vlib, svgen, tree, pp, c15

KT = {"sp": " ", "ht": "\t", "ff": "\f", "nl": "\n", "crlf": "\r\n", "lcmt": "// c ü\n", "bcmt": "/* c é */", "ecmt": "/**/", "scmt": "/***/",
      "celldefine": "`celldefine ", "endcelldefine": "`endcelldefine ", "default_nettype": "`default_nettype wire ", "timescale": "`timescale 1ns/1ps ",
      "unconnected_drive": "`unconnected_drive pull1 ", "nounconnected_drive": "`nounconnected_drive ", "line": "`line 7 \"f.v\" 0\n",
      "define": "`define TRIVIA_M 1\n", "define_cont": "`define TRIVIA_N a \\\n + b\n", "define_crlf": "`define TRIVIA_N a \\\r\n + b\r\n", "undef": "`undef TRIVIA_M ", "resetall": "`resetall "}
NEUTRAL = [k for k in KT if k != "resetall"]


def run_text(run):
    return "".join(KT[k] for k in run)


def join(toks, seps):
    out = []
    for i, t in enumerate(toks):
        out.append(t)
        if i < len(seps):
            out.append(seps[i])
    return "".join(out) + "\n"


def run(tier, seed):
    v = vlib.Verdict("C12", tier, seed)
    vlib.build_harness()
    rng = random.Random(seed)
    quick = tier == "quick"
    r = vlib.tlc_model_check("MC_ParserState.tla", "MC_ParserState_faithful.cfg", workers=8, extra=["-coverage", "1"])
    v.add_mc("MC_ParserState_faithful", r, "DirectiveNeutral, ScopeAgrees, EntryFresh")
    r = vlib.tlc_model_check("MC_ParserState.tla", "MC_ParserState_refute_unpaired.cfg", workers=4, expect_violation=True)
    v.add_mc("MC_ParserState_refute_unpaired", r, "refutation: early return between push and pop leaves DIR on the version stack")
    bases = []   # (tokens, top positions set, note)
    nb = 25 if quick else 300
    while len(bases) < nb:
        ch, toks = svgen.random_derivation(rng, "description", rng.randint(2, 7))
        tk = [t for t, r_ in toks]
        if len(tk) <= (25 if quick else 40):
            bases.append((tk, set(), "sentence"))
    # two descriptions: the boundary between them is a top-level position
    for j in range(6 if quick else 60):
        a = [t for t, r_ in svgen.random_derivation(rng, "description", 3)[1]]
        b = [t for t, r_ in svgen.random_derivation(rng, "description", 3)[1]]
        if j % 2 == 0:
            # every second pair: the description behind the boundary starts with an attribute instance
            while b[0] not in ("module", "macromodule", "interface", "program", "package"):
                b = [t for t, r_ in svgen.random_derivation(rng, "description", 3)[1]]
            b = ["(*", "keep", "=", "1", "*)"] + b
        bases.append((a + b, {len(a) - 1}, "two descriptions"))
    # rejected bases: one token deleted / duplicated
    for _ in range(8 if quick else 80):
        tk = list(bases[rng.randrange(nb)][0])
        i = rng.randrange(len(tk))
        if rng.random() < 0.5:
            del tk[i]
        else:
            tk.insert(i, tk[i])
        if len(tk) >= 2:
            bases.append((tk, set(), "damaged"))
    hcases = []
    meta = []
    for bi, (tk, tops, note) in enumerate(bases):
        n = len(tk) - 1
        variants = []
        # directly after a string literal only blanks are placed: a comment or directive there runs into
        # known finding D2 (emitted twice by the preprocessor), which PpLex/C06 decides on its own
        # (the same holds directly after an escaped identifier - D2 covers both; seed 11 met `define there, whose
        #  duplicate loses its line break and swallows the rest of the line)
        after_str = {p for p in range(n) if tk[p].startswith('"') or tk[p].startswith("\\")}
        BL = ("sp", "ht", "ff", "nl", "crlf")

        def prev_kind(p):
            return "esc" if tk[p].startswith("\\") else ("slash" if tk[p].endswith("/") else "")

        def ok(p, run_):
            # the well-formedness rules of Trivia.tla (the trace spec re-checks every variant it is shown)
            if p in after_str and any(k not in BL for k in run_):
                return False
            pk = prev_kind(p)
            if pk == "esc" and run_[0] not in ("sp", "ht", "nl", "crlf"):
                return False
            if pk == "slash" and run_[0] in ("lcmt", "bcmt", "ecmt", "scmt"):
                return False
            return True
        for p in range(n):
            for k in NEUTRAL:
                if ok(p, [k]):
                    variants.append((p, [k]))
            if p in tops:
                for run_ in (["resetall"], ["nl", "resetall", "nl"]):
                    if ok(p, run_):
                        variants.append((p, run_))
        # `resetall (between two descriptions, or leading the file: position -2) TOGETHER WITH a comment or neutral
        # directive at a later position: the directive must not leave the parser in a state in which later trivia
        # is read differently (round-2 seeded change: IN_DIRECTIVE entry left behind by the failed directive attempt)
        multi = []
        NB = [k for k in NEUTRAL if k not in BL]
        # (a leading `resetall is not placed before a compilation-unit timeunits declaration: that declaration has a
        # slot of its own in source_text only when it comes first, so the tree legitimately differs)
        for p in sorted(tops) + ([-2] if tk[0] not in ("timeunit", "timeprecision") else []):
            later = [q for q in range(n) if q > p]
            rng.shuffle(later)
            for j, q in enumerate(later[: (4 if quick else 12)]):
                k = NB[(bi + j + (p if p >= 0 else 0)) % len(NB)]
                if ok(q, [k]) and (p < 0 or ok(p, ["resetall"])):
                    multi.append((p, ["resetall"], [(q, [k])]))
        for _ in range(10 if quick else 30):
            p = rng.randrange(n)
            run_ = [rng.choice(NEUTRAL) for _ in range(rng.randint(2, 5))]
            if ok(p, run_):
                variants.append((p, run_))
        for _ in range(3):
            run_ = [rng.choice(["sp", "ht", "nl", "crlf"])] + [rng.choice(BL if after_str else NEUTRAL) for _ in range(rng.randint(0, 2))]
            if all(ok(p, run_) for p in range(n)):
                variants.append((-1, run_))      # the same run at ALL positions
        calls = [{"fn": "two_step_sv_str", "path": "t.sv", "text": join(tk, [" "] * n)}]
        vm = []
        for var in [(p, r_, []) for (p, r_) in variants] + multi:
            p, run_, also = var
            txt = run_text(run_)
            seps = [" "] * n
            lead = ""
            if p >= 0:
                seps[p] = txt
            elif p == -2:
                lead = txt
            else:
                seps = [txt] * n
            am = []
            for (q, r2) in also:
                seps[q] = run_text(r2)
                am.append({"pos": q, "run": r2, "text": run_text(r2), "top": (q in tops), "prev": prev_kind(q)})
            calls.append({"fn": "two_step_sv_str", "path": "t.sv", "text": lead + join(tk, seps)})
            vm.append({"pos": p, "run": run_, "text": txt, "top": (p in tops) or p == -2, "prev": prev_kind(p) if p >= 0 else "", "also": am})
        hcases.append({"id": bi, "calls": calls, "fresh_each": True})
        meta.append(vm)
    vlib.log("C12: %d base sources, %d parses" % (len(bases), sum(len(h["calls"]) for h in hcases)))
    results = vlib.run_cases(hcases, tag="c12", limit_ms=120000)
    recs = []
    nacc = 0
    for h, res, vm, (tk, tops, note) in zip(hcases, results, meta, bases):
        rs = [tree.result_summary(x, want_skel="pruned") for x in res["results"]]
        base = {"outcome": rs[0]["outcome"], "skel": rs[0]["skel"]}
        if base["outcome"] == "ok":
            nacc += 1
        vs = [dict(m, res={"outcome": r["outcome"], "skel": r["skel"]}) for m, r in zip(vm, rs[1:])]
        recs.append({"id": str(h["id"]), "base": base, "variants": vs})
    bad, stats = vlib.tlc_validate("Trivia_Trace.tla", "Trivia_Trace.cfg", recs, tag="c12", shards=8)
    v.add_tv("Trivia_Trace", stats, len(recs))
    for rid, reasons in bad.items():
        tk, tops, note = bases[int(rid)]
        v.violation("%s base %r: %s" % (note, " ".join(tk)[:300], "; ".join(reasons)[:400]), {"tokens": tk, "note": note})
    v.cov["evaluations"] = sum(len(h["calls"]) for h in hcases)
    v.cov["distinct_nontrivial"] = sum(len(m) for m in meta)
    v.cov["base_sources_accepted"] = nacc
    v.cov["base_sources_rejected"] = len(bases) - nacc
    v.cov["samples"] = [{"base": " ".join(bases[int(r["id"])][0])[:200], "base_outcome": r["base"]["outcome"], "variant": r["variants"][0]} for r in recs[:2] + recs[-1:]]
    v.assumptions = ["skeleton = nested node kinds and token texts with WhiteSpace and `resetall subtrees removed and token-less nodes dropped (SHA-1)", "trivia positions are the gaps between the tokens of a Grammar derivation (outside compiler directives by construction)"]
    return v.finish(rule="Grammar sentences (accepted, damaged, two-description) x every inter-token position x every single-kind run of Trivia.tla + seeded "
                         "multi-kind runs + the same run at all positions + `resetall between descriptions; non-trivial = variants", exhaustive=False)


def replay(path):
    print(json.dumps(json.load(open(path)), indent=1))
    return 0
