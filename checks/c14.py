"""C14 — invalid sources are rejected; the error location is at or before the fault.

MC   MC_PpLex (FaultKinds: position of lexical faults), MC_Api.
GEN  fault actions of Api applied to accepted sources (Grammar sentences and corpus snippets, directly
     and behind one `include): an untokenisable byte (0x01, 0x7F, U+00A4) inserted at every token
     boundary taken in SOURCE coordinates (token offsets mapped through get_origin); one closing
     bracket or block-closing keyword deleted; preprocessor-level lexical faults from PpLex.
TV   Api_Trace kinds badbyte / delclose; PpLex_Trace for Error::Preprocess(path, offset <= fault).
"""
import random, json
import vlib, corpus, svgen, tree, pp
import c06

# bytes / characters that can start no token and are no white space of IEEE 1800-2017 5.3 (blank, tab, newline, form feed):
# control characters, a currency sign, and characters that Unicode - but not the standard - counts as white space
# (vertical tab, NEL, no-break space, line separator; round-3 seeded change: char::is_whitespace in white_space())
BAD = ["\x01", "\x7f", "¤", "\x0b", "\u00a0", "\u2028", "\u0085"]
CLOSERS = {")", "]", "}", "end", "endmodule", "endcase", "endfunction", "endtask", "endclass", "endpackage", "endinterface", "endprogram", "endgenerate", "endchecker"}


def boundaries(res):
    """(path, source byte offset) of every non-whitespace token outside directives"""
    t = res["tree"]
    kinds = t["kinds"]
    lo = {x[0]: (x[1], x[2]) for x in t.get("leaf_origins", [])}
    out = []
    ws = 0
    for e in t["ev"]:
        i = abs(e) - 1
        if kinds[i] == "WhiteSpace":
            ws += 1 if e > 0 else -1
        elif e > 0 and kinds[i] == "Locate" and ws == 0:
            o = t["locs"][i][0]
            if o in lo and lo[o][0] is not None:
                out.append(lo[o])
    return out


def digest(obj):
    import hashlib
    return hashlib.sha1(json.dumps(obj, sort_keys=True).encode()).hexdigest()[:12]


def closed_mid_include_set():
    """CLOSED input set (independent of VERIF_SEED): Grammar sentences in which the `include sits INSIDE a
    description - a run of tokens from the middle of the source is moved into the included file.  On this set the
    unchanged tree has known finding D21 (the reported position can lie in the including file, before the
    directive); its instances are listed individually, so the set has to be the same in every run."""
    rng = random.Random(1400)
    out = []
    for _ in range(60):
        ch, toks = svgen.random_derivation(rng, "source", rng.randint(2, 8))
        s, offs = svgen.render(toks)           # token offsets of the derivation, not of a re-tokenisation
        if len(offs) < 4:
            continue
        a = rng.randrange(1, len(offs) - 1)
        b = rng.randrange(a + 1, len(offs))
        oa, ob = offs[a], offs[b]
        out.append({"top.sv": s[:oa] + "\n`include \"body.svh\"\n" + s[ob:], "body.svh": s[oa:ob] + "\n"})
    return out


def closed_fault_cases():
    """-> (fault cases, meta) of the closed set: every token boundary x one byte (rotating)"""
    bases = closed_mid_include_set()
    pcases = [{"id": i, "files": f, "calls": [{"fn": "two_step_sv", "path": "top.sv", "origins_of_leaves": True}]} for i, f in enumerate(bases)]
    pres = vlib.run_cases(pcases, tag="c14ca", limit_ms=60000)
    fcases, meta = [], {}
    for pc, res in zip(pcases, pres):
        r0 = res["results"][0]
        if r0.get("outcome") != "ok":
            meta["base%d" % pc["id"]] = {"kind": "base-not-accepted", "outcome": r0.get("outcome"), "base": pc["files"]}
            continue
        for n, (path, off) in enumerate(boundaries(r0)):
            bad = BAD[n % len(BAD)]
            files = dict(pc["files"])
            b = files[path].encode()
            files[path] = {"bytes": list(b[:off] + bad.encode() + b[off:])}
            key = digest([pc["files"], path, off, bad])
            cid = "m" + key
            if cid in meta:
                continue
            fcases.append({"id": cid, "files": files, "calls": [{"fn": "parse_sv", "path": "top.sv", "no_tree": True}]})
            meta[cid] = {"kind": "badbyte", "file": path, "off": off, "base": pc["files"], "byte": repr(bad), "closed": True, "key": key}
    return fcases, meta


def run(tier, seed):
    v = vlib.Verdict("C14", tier, seed)
    vlib.build_harness()
    rng = random.Random(seed)
    quick = tier == "quick"
    r = vlib.tlc_model_check("MC_PpLex.tla", "MC_PpLex_quick.cfg", workers=8)
    v.add_mc("MC_PpLex", r, "FaultKinds")
    r = vlib.tlc_model_check("MC_Api.tla", "MC_Api.cfg", workers=2)
    v.add_mc("MC_Api", r, "entry-point equations")
    # accepted base sources
    bases = []
    for s in svgen.sentences(rng, 60 if quick else 600, budget=8):
        bases.append(s)
    cor = [x for x in corpus.parser_corpus() if x["kind"] == "sv" and "`" not in x["text"] and len(x["text"]) < 1500]
    rng.shuffle(cor)
    bases += [x["text"] for x in cor[: (40 if quick else 400)]]
    # sources whose keyword regions are selected by conditional compilation (the preprocessor's own parser run sees BOTH
    # `begin_keywords, the main run one): deleting a block-closing keyword must still be a parse error (round-4 seeded
    # change: a stale old-standard entry on the version stack made 'package p;' a data declaration)
    REG = "package p; typedef int t; endpackage\nprogram q; endprogram\ninterface i; logic a; endinterface\nmodule m; endmodule\n"
    for first, second in (("1364-2001", "1800-2017"), ("1364-1995", "1800-2012"), ("1364-2005", "1800-2009")):
        # (the region is closed again before the constructs: behind it the default set is in force)
        bases.insert(0, '`ifdef KW_SEL\n`begin_keywords "%s"\n`else\n`begin_keywords "%s"\n`endif\nmodule a; endmodule\n`end_keywords\n%s' % (first, second, REG))
        bases.insert(0, '`begin_keywords "%s"\nmodule old; reg logic; endmodule\n`end_keywords\n%s`begin_keywords "%s"\n%s`end_keywords\n' % (first, REG, second, REG))
    pcases = []
    for i, s in enumerate(bases):
        if i % 2 == 0 or s.startswith("`"):
            files = {"top.sv": s}
        else:
            files = {"top.sv": "// top\n`include \"body.svh\"\n", "body.svh": s}
        pcases.append({"id": i, "files": files, "calls": [{"fn": "two_step_sv", "path": "top.sv", "origins_of_leaves": True}]})
    pres = vlib.run_cases(pcases, tag="c14a", limit_ms=60000)
    fcases = []
    meta = {}
    nid = 0
    for pc, res in zip(pcases, pres):
        r0 = res["results"][0]
        if r0.get("outcome") != "ok":
            if r0.get("outcome") != "err":
                v.violation("base source: entry point did not return Ok/Err: %s %s" % (r0.get("outcome"), str(r0.get("msg"))[:200]), {"files": pc["files"]})
            continue
        bs = boundaries(r0)
        if not quick or len(bs) <= 40:
            pick = bs
        else:
            pick = rng.sample(bs, 40)
        for (path, off) in pick:
            bad = BAD[nid % len(BAD)]
            files = dict(pc["files"])
            b = files[path].encode()
            files[path] = {"bytes": list(b[:off] + bad.encode() + b[off:])}
            nid += 1
            fcases.append({"id": "b%d" % nid, "files": files, "calls": [{"fn": "parse_sv", "path": "top.sv", "no_tree": True}]})
            meta["b%d" % nid] = {"kind": "badbyte", "file": path, "off": off, "base": pc["files"], "byte": repr(bad)}
        # deletions of closers (only for directly given sources; tokens from the tokenizer)
        if "body.svh" not in pc["files"]:
            src = pc["files"]["top.sv"]
            toks = [(o, t) for (o, t, c) in pp.tokenize(src) if not c and t in CLOSERS]
            for (o, t) in (toks if not quick else rng.sample(toks, min(8, len(toks)))):
                nid += 1
                fcases.append({"id": "d%d" % nid, "files": {"top.sv": src[:o] + src[o + len(t):]}, "calls": [{"fn": "parse_sv", "path": "top.sv", "no_tree": True}]})
                meta["d%d" % nid] = {"kind": "delclose", "deleted": t, "at": o, "base": src}
    # header-size sweep (round-6 seeded change: an origin entry of the includer coalesced with the last entry of an included
    # file when the header's length equals the offset at which the includer's text resumes): the sentence stands BEHIND an
    # `include of a header of every length 0..48 (directly, and one level deeper); the fault is in the file that holds the sentence
    hb = [s for s in bases if not s.startswith("`")][: (3 if quick else 24)]
    hp = []
    for i, s in enumerate(hb):
        for lay in ("hdr", "hdr2"):
            inc = "`include \"hdr.svh\"\n" if i % 2 == 0 else "/* p%d */ `include <hdr.svh>\n" % i
            if lay == "hdr":
                files = {"top.sv": inc + s, "hdr.svh": "// h\n"}
            else:
                files = {"top.sv": "`include \"mid.svh\"\n", "mid.svh": inc + s, "hdr.svh": "// h\n"}
            hp.append({"id": "%s%d" % (lay, i), "files": files, "calls": [{"fn": "two_step_sv", "path": "top.sv", "origins_of_leaves": True}]})
    hres = vlib.run_cases(hp, tag="c14h", limit_ms=60000)
    for pc, res in zip(hp, hres):
        r0 = res["results"][0]
        if r0.get("outcome") != "ok":
            v.violation("base source behind an `include of a header is not accepted: %s %s" % (r0.get("outcome"), str(r0.get("msg", r0.get("err")))[:200]), {"files": pc["files"]})
            continue
        holder = "mid.svh" if "mid.svh" in pc["files"] else "top.sv"
        bs = [b for b in boundaries(r0) if b[0] == holder]
        for L in range(0, 49):
            hdr = "" if L == 0 else ("\n" * L if L < 4 else "// " + "h" * (L - 4) + "\n") if L % 3 else ("\n" * L if L < 5 else "/*" + "h" * (L - 5) + "*/\n")
            assert len(hdr) == L
            for (path, off) in (rng.sample(bs, min(3, len(bs))) if quick else rng.sample(bs, min(8, len(bs)))):
                bad = BAD[nid % len(BAD)]
                files = dict(pc["files"])
                files["hdr.svh"] = hdr
                b = files[path].encode()
                files[path] = {"bytes": list(b[:off] + bad.encode() + b[off:])}
                nid += 1
                fcases.append({"id": "h%d" % nid, "files": files, "calls": [{"fn": "parse_sv", "path": "top.sv", "no_tree": True}]})
                meta["h%d" % nid] = {"kind": "badbyte", "file": path, "off": off, "base": dict(pc["files"], **{"hdr.svh": hdr}), "byte": repr(bad), "header_len": L}
    cf, cm = closed_fault_cases()
    for k, m in cm.items():
        if m["kind"] == "base-not-accepted":
            v.violation("closed set: base source is not accepted: %s" % json.dumps(m["base"])[:300], m)
    fcases += cf
    meta.update({k: m for k, m in cm.items() if m["kind"] == "badbyte"})
    listed = {}
    for f in vlib.load_known()["findings"]:
        if f["id"] == "D21" and f["status"] == "open":
            for k in f.get("instances", []):
                listed[k] = f
    vlib.log("C14: %d fault cases from %d accepted sources (+ %d of the closed include-inside-a-description set)" % (len(fcases), len(bases), len(cf)))
    fres = vlib.run_cases(fcases, tag="c14b", limit_ms=60000)
    recs = []
    for fc, res in zip(fcases, fres):
        m = meta[fc["id"]]
        rs = tree.result_summary(res["results"][0])
        if m["kind"] == "badbyte":
            recs.append({"id": fc["id"], "kind": "badbyte", "file": m["file"], "off": m["off"], "res": rs})
        else:
            recs.append({"id": fc["id"], "kind": "delclose", "res": rs})
    bad, stats = vlib.tlc_validate("Api_Trace.tla", "Api_Trace.cfg", recs, tag="c14")
    v.add_tv("Api_Trace[badbyte, delclose]", stats, len(recs))
    nk = 0
    for rid, reasons in bad.items():
        m = meta[rid]
        if m.get("closed") and m["key"] in listed and any("names another file" in x for x in reasons):
            nk += 1
            v.known_finding("D21", listed[m["key"]]["title"], "fault in %s at %d of %s: %s" % (m["file"], m["off"], json.dumps(m["base"])[:160], "; ".join(reasons)[:120]), ["C14"])
            continue
        v.violation("%s: %s" % (json.dumps(m)[:400], "; ".join(reasons)[:400]), m)
    # preprocessor-level lexical faults
    texts = []
    ex, r = vlib.tlc_export("MC_PpLex.tla", "MC_PpLex_gen4.cfg", workers=4)
    v.add_mc("MC_PpLex_gen4", r, "GEN export %d texts" % len(ex))
    texts += ["".join(x) for x in ex]
    for i in range(1500 if quick else 20000):
        texts.append(c06.seeded_text(rng) + rng.choice(c06.FAULTS))
    hcases = [{"id": i, "calls": [{"fn": "preprocess_str", "path": c06.PATH, "text": t}]} for i, t in enumerate(texts)]
    results = vlib.run_cases(hcases, tag="c14c")
    lrecs = [c06.lex_record("L%d" % i, t, res["results"][0]) for (i, t), res in zip(enumerate(texts), results)]
    lrecs = [r for r in lrecs if r["obs"]["outcome"] != "ok"]     # the rejections are this property's subject
    badl, stats = vlib.tlc_validate("PpLex_Trace.tla", "PpLex_Trace.cfg", lrecs, tag="c14l")
    v.add_tv("PpLex_Trace[rejections]", stats, len(lrecs))
    for rid, reasons in badl.items():
        t = texts[int(rid[1:])]
        v.violation("text %r: %s" % (t[:200], "; ".join(reasons)[:300]), {"text": t})
    v.cov["evaluations"] = len(fcases) + len(lrecs)
    v.cov["distinct_nontrivial"] = len(fcases)
    v.cov["bad_byte_cases"] = sum(1 for m in meta.values() if m["kind"] == "badbyte")
    v.cov["bad_byte_in_included_file"] = sum(1 for m in meta.values() if m["kind"] == "badbyte" and m["file"] != "top.sv")
    v.cov["deleted_closer_cases"] = sum(1 for m in meta.values() if m["kind"] == "delclose")
    v.cov["preprocess_rejections"] = len(lrecs)
    v.cov["samples"] = [dict(meta[r["id"]], result=r["res"]["err"]) for r in recs[:2] + recs[-2:]]
    for sm in v.cov["samples"]:
        sm.pop("base", None)
    v.assumptions = ["token boundaries are taken from the accepted parse of the base source through get_origin (source coordinates)"]
    return v.finish(rule="every (quick: up to 40 per source) token boundary of accepted Grammar sentences and corpus snippets x byte in {0x01,0x7F,U+00A4}, "
                         "half of the sources behind an `include; every (quick: up to 8) closing delimiter deleted; PpLex rejections", exhaustive=False)


def replay(path):
    print(json.dumps(json.load(open(path)), indent=1))
    return 0
