"""C13 — reserved words of the keyword set in force are never identifiers.

MC   MC_KeywordScope (tables: monotone, sizes of Annex B, region replay); MC_ParserState ScopeAgrees
     (identifiers judged under the set in force in SOURCE order despite backtracking and memoisation),
     with the refutations for capacity 1 (D11) and the unpaired macro-name site (D4).
GEN  keyword sweep: every word of the 1800-2017 set x each of the eight version specifiers x four
     identifier slots, behind nested / sequential / closed regions and other directives; every word and
     every directive name as a `define name.
TV   Keyword_Trace: sweep verdicts (reject iff reserved in force, else accepted AS an identifier);
     for every accepted tree (sweep, corpus, Grammar sentences with `begin_keywords regions) the
     identifiers in tree order against the region stack.
"""
import random, json, zlib
import vlib, svgen, corpus, tree

VERSIONS = ["1364-1995", "1364-2001", "1364-2001-noconfig", "1364-2005", "1800-2005", "1800-2009", "1800-2012", "1800-2017"]
TEMPLATES = [("module {W} ; endmodule", "module identifier"),
             ("module kw_host ; wire {W} ; endmodule", "net identifier"),
             ("module kw_host ; initial {W} = 1 ; endmodule", "variable in a statement"),
             ("module kw_host ; kw_sub {W} ( ) ; endmodule", "instance identifier")]


def events_of_tree(t, text):
    """`begin_keywords / `end_keywords and simple identifiers in tree order"""
    k = t["kinds"]
    tb = text.encode()
    evs = []
    stack = []
    want = None     # what the next token means
    macro = 0
    for e in t["ev"]:
        i = abs(e) - 1
        kind = k[i]
        if e > 0:
            stack.append(kind)
            if kind == "VersionSpecifier":
                want = "version"
            elif kind == "EndkeywordsDirective":
                evs.append(["end", ""])
            elif kind == "TextMacroIdentifier":
                macro += 1
            elif kind == "SimpleIdentifier":
                want = "id"
            elif kind == "Locate" and want:
                o, l, ln = t["locs"][i]
                tx = tb[o:o + l].decode("utf-8", "replace")
                if want == "version":
                    evs.append(["begin", tx])
                else:
                    evs.append(["macro" if macro else "id", tx])
                want = None
        else:
            stack.pop()
            if kind == "TextMacroIdentifier":
                macro -= 1
    return evs


def region_prefixes(rng):
    """lists of region events standing before the probed slot (+ text rendering)"""
    out = [[]]
    for v in VERSIONS:
        out.append([["begin", v]])
    for v1, v2 in [("1800-2017", "1364-1995"), ("1364-2001", "1800-2009"), ("1364-1995", "1800-2005"), ("1800-2005", "1364-2001-noconfig")]:
        out.append([["begin", v1], ["begin", v2]])                 # nested: inner in force
        out.append([["begin", v1], ["begin", v2], ["end", ""]])    # inner closed: outer in force
        out.append([["begin", v1], ["end", ""], ["begin", v2]])    # sequential
        out.append([["begin", v1], ["end", ""]])                   # closed: default in force
    # directives the preprocessor removes (not-taken conditional branch): they are not part of the text the parser
    # sees and must not change the set in force ("hidden" events are rendered but are no region events)
    for v1 in ("1364-1995", "1364-2001", "1800-2005"):
        out.append([["hidden", v1]])
        out.append([["begin", "1800-2009"], ["hidden", v1]])
        out.append([["begin", v1], ["hidden_end", ""]])
    return out


def render_regions(evs, rng, noise=True):
    s = ""
    for e in evs:
        if noise and rng.random() < 0.3:
            s += rng.choice(["`celldefine\n", "`default_nettype none\n", "`timescale 1ns/1ps\n", "// c\n", "`resetall\n"])
        if e[0] == "hidden":
            s += '`ifdef KW_NEVER_DEFINED\n`begin_keywords "%s"\n`endif\n' % e[1]
        elif e[0] == "hidden_end":
            s += "`ifdef KW_NEVER_DEFINED\n`end_keywords\n`else\n`endif\n"
        else:
            s += ('`begin_keywords "%s"\n' % e[1]) if e[0] == "begin" else "`end_keywords\n"
    return s


def visible(evs):
    return [e for e in evs if e[0] in ("begin", "end")]


def closing(evs):
    depth = 0
    for e in visible(evs):
        depth += 1 if e[0] == "begin" else (-1 if depth > 0 else 0)
    return "`end_keywords\n" * depth


def run(tier, seed):
    v = vlib.Verdict("C13", tier, seed)
    vlib.build_harness()
    rng = random.Random(seed)
    quick = tier == "quick"
    r = vlib.tlc_model_check("MC_KeywordScope.tla", "MC_KeywordScope.cfg", workers=4)
    v.add_mc("MC_KeywordScope", r, "Monotone, Sizes, InForceSane, Innermost")
    r = vlib.tlc_model_check("MC_ParserState.tla", "MC_ParserState_%s.cfg" % ("faithful" if quick else "faithful3"), workers=8)
    v.add_mc("MC_ParserState_faithful", r, "ScopeAgrees, EntryFresh, DirectiveNeutral")
    r = vlib.tlc_model_check("MC_ParserState.tla", "MC_ParserState_refute_cap1.cfg", workers=4, expect_violation=True)
    v.add_mc("MC_ParserState_refute_cap1", r, "refutation: bounded memo re-executes a `begin_keywords in re-parsed trivia")
    r = vlib.tlc_model_check("MC_ParserState.tla", "MC_ParserState_refute_unpaired_scope.cfg", workers=4, expect_violation=True)
    v.add_mc("MC_ParserState_refute_unpaired_scope", r, "refutation: unpaired macro-name site un-reserves keywords")
    words = sorted(svgen_words())
    prefixes = region_prefixes(rng)
    cases = []
    meta = {}
    nid = 0
    for pi, pre in enumerate(prefixes):
        full = pi <= len(VERSIONS)          # the single-region prefixes get every word x every template
        ws = words if (full or not quick) else rng.sample(words, 40)
        for w in ws:
            for ti, (tpl, slot) in enumerate(TEMPLATES):
                if not full and ti != (zlib.crc32(w.encode()) % 4):
                    continue
                nid += 1
                text = render_regions(pre, rng) + tpl.replace("{W}", w) + "\n" + closing(pre)
                cases.append({"id": "s%d" % nid, "calls": [{"fn": "two_step_sv_str", "path": "t.sv", "text": text}]})
                meta["s%d" % nid] = {"kind": "sweep", "regions": visible(pre), "word": w, "slot": slot, "text": text}
    for w in words + ["define", "include", "ifdef", "undef", "resetall", "line", "pragma", "timescale", "my_macro", "begin_keywords"]:
        nid += 1
        text = "`define %s 1\nmodule kw_host ; endmodule\n" % w
        cases.append({"id": "m%d" % nid, "calls": [{"fn": "two_step_sv_str", "path": "t.sv", "text": text}]})
        meta["m%d" % nid] = {"kind": "macro", "word": w, "text": text}
    # accepted trees with regions: corpus texts that use `begin_keywords and Grammar sentences wrapped in regions
    extra = []
    for x in corpus.parser_corpus():
        if "begin_keywords" in x["text"] and x["kind"] == "sv":
            extra.append(x["text"])
    for s in svgen.sentences(rng, 40 if quick else 600, budget=8):
        ver = rng.choice(VERSIONS[4:])        # the Grammar subset uses SystemVerilog keywords
        extra.append('`begin_keywords "%s"\n%s`end_keywords\n' % (ver, s))
    for t in extra:
        nid += 1
        cases.append({"id": "t%d" % nid, "calls": [{"fn": "two_step_sv_str", "path": "t.sv", "text": t}]})
        meta["t%d" % nid] = {"kind": "tree-only", "text": t}
    vlib.log("C13: %d cases" % len(cases))
    results = vlib.run_cases(cases, tag="c13", limit_ms=60000)
    recs = []
    ntree = 0
    for c, res in zip(cases, results):
        m = meta[c["id"]]
        r0 = res["results"][0]
        oc = r0.get("outcome")
        oc = oc if oc in ("ok", "err") else str(oc)
        evs = events_of_tree(r0["tree"], r0.get("text", "")) if oc == "ok" else []
        if m["kind"] == "sweep":
            isident = any(e[0] == "id" and e[1] == m["word"] for e in evs)
            recs.append({"id": c["id"], "kind": "sweep", "regions": m["regions"], "word": m["word"], "outcome": oc, "isident": isident})
        elif m["kind"] == "macro":
            recs.append({"id": c["id"], "kind": "macro", "word": m["word"], "outcome": oc})
        if oc == "ok":
            ntree += 1
            recs.append({"id": c["id"] + "T", "kind": "tree", "events": evs})
            meta[c["id"] + "T"] = m
    bad, stats = vlib.tlc_validate("Keyword_Trace.tla", "Keyword_Trace.cfg", recs, tag="c13", shards=8)
    v.add_tv("Keyword_Trace", stats, len(recs))
    known = {(f["word"], f["version"], f["slot"]) for f in known_d14()}
    for rid, reasons in bad.items():
        m = meta[rid]
        if m["kind"] == "sweep" and rid in meta:
            # D14: individually listed (word, version in force, slot)
            inforce = in_force(m["regions"])
            if (m["word"], inforce, m["slot"]) in known and "not reserved" in " ".join(reasons):
                v.known_finding("D14", "a word that is not reserved in the set in force is consumed as a keyword where the grammar optionally allows one",
                                "%s under %s as %s" % (m["word"], inforce, m["slot"]), ["C13"])
                continue
        v.violation("%s: %s" % (json.dumps({k: m[k] for k in m if k != "regions"})[:300], "; ".join(reasons)[:400]), m)
    v.cov["evaluations"] = len(cases)
    v.cov["distinct_nontrivial"] = sum(1 for m in meta.values() if m["kind"] == "sweep")
    v.cov["accepted_trees_checked"] = ntree
    v.cov["samples"] = [meta[c["id"]] for c in cases[:2] + cases[-1:]]
    v.assumptions = ["reserved-word tables of specs/KeywordScope.tla (written from IEEE 1800-2017 Annex B, cross-checked word by word through the sweep)"]
    return v.finish(rule="248 words x 9 single-region prefixes x 4 identifier slots + nested/sequential/closed region prefixes + 259 `define names + accepted "
                         "trees with regions; non-trivial = sweep cases", exhaustive=True)


def in_force(regions):
    st = []
    for e in regions:
        if e[0] == "begin":
            st.append(e[1])
        elif st:
            st.pop()
    return st[-1] if st else "1800-2017"


def known_d14():
    k = vlib.load_known()
    for f in k["findings"]:
        if f["id"] == "D14":
            return f["instances"]
    return []


def svgen_words():
    # the 1800-2017 set, taken from the specification module through a TLC evaluation would be cleaner; the words
    # are only the SUBJECTS of the sweep (the verdict per word and version comes from KeywordScope in TLC)
    import re, os
    s = open(os.path.join(vlib.SPECS, "KeywordScope.tla")).read()
    ws = set()
    for name in ("V1364_1995", "Add2001", "ConfigWords", "Add1364_2005", "Add1800_2005", "Add1800_2009", "Add1800_2012"):
        m = re.search(r"^%s == \{(.*?)\}" % name, s, re.M)
        ws.update(re.findall(r'"([^"]+)"', m.group(1)))
    return ws


def replay(path):
    print(json.dumps(json.load(open(path)), indent=1))
    return 0
