"""C02 — Annex A sentences are accepted and classified under their production.

MC   MC_Grammar: the derivation machine of the Annex A subset; grammar well-formedness, budget,
     duplicate-free expectations; exhaustive enumeration of all derivations up to the growth budget per
     start symbol with lexical classes collapsed (bounded-exhaustive structure).
GEN  every enumerated derivation (TLC export); class sweeps: every alternative of every collapsed
     (lexical / leaf) non-terminal once in three contexts; seeded deep derivations (each-choice lexis,
     adversarial identifiers, all literal forms).
TV   Grammar_Trace: TLC replays each derivation with the specification, recomputes tokens and
     expectation and compares with the real tree: accepted; every tracked construct exactly once
     under its Annex A node kind with its identifier; every identifier/keyword exactly one leaf.
"""
import random, json, zlib
import vlib, svgen

STARTS = ["module_ansi", "module_nonansi", "interface_decl", "program_decl", "package_decl", "class_decl", "stmt", "expr", "module_item",
          "inst", "function_decl", "gen_if"]

# how a sentence of a start symbol that is not a description is embedded into a source text
def wrap_choices(start, choices, budget):
    """returns (start', choices', budget'): derivation of `source` (or a host) that contains the given one"""
    return start, choices, budget


HOSTS = {
    # start symbol -> (prefix tokens, suffix tokens) rendered around the sentence; the host is not part of the
    # derivation (its tokens are known to be accepted: a module with one item / an initial block)
    "stmt": ("module host_m ; initial ", " endmodule"),
    "expr": ("module host_m ; assign host_y = ", " ; endmodule"),
    "module_item": ("module host_m ; ", " endmodule"),
    "inst": ("module host_m ; ", " endmodule"),
    "function_decl": ("module host_m ; ", " endmodule"),
    "gen_if": ("module host_m ; ", " endmodule"),
}
HOST_PAIRS = {"stmt": [["ModuleDeclarationAnsi", "host_m"], ["InitialConstruct", ""]],
              "expr": [["ModuleDeclarationAnsi", "host_m"], ["ContinuousAssign", ""]]}
DEFAULT_HOST_PAIRS = [["ModuleDeclarationAnsi", "host_m"]]


def build_case(cid, start, budget, choices, sep=" "):
    toks = svgen.replay(start, budget, choices)
    text, offs = svgen.render(toks, sep)
    pre, post = HOSTS.get(start, ("", ""))
    full = pre + text.rstrip("\n") + post + "\n"
    shift = len(pre.encode())
    return {"id": cid, "start": start, "budget": budget, "choices": choices, "toks": [t for t, r in toks], "offs": [o + shift for o in offs], "text": full,
            "host": (HOST_PAIRS.get(start, DEFAULT_HOST_PAIRS) if start in HOSTS else [])}


def class_sweep(rng):
    """every alternative of every non-terminal at least once, in three contexts: a shortest path of alternatives
    from the start symbol to the non-terminal is forced, the target alternative is taken at its first occurrence,
    everything else gets a (context-seeded) non-growing alternative"""
    g = svgen.grammar()
    prod = g["prod"]

    def path_to(start, target):
        from collections import deque
        prev = {start: None}
        q = deque([start])
        while q:
            a = q.popleft()
            if a == target:
                break
            for k, alt in enumerate(prod[a], 1):
                for sym in alt["rhs"]:
                    if sym["t"] == "nt" and sym["v"] not in prev:
                        prev[sym["v"]] = (a, k)
                        q.append(sym["v"])
        if target not in prev:
            return None
        path = []
        cur = target
        while prev[cur] is not None:
            a, k = prev[cur]
            path.append((a, k))
            cur = a
        return list(reversed(path))
    out = []
    for nt, alts in sorted(prod.items()):
        for k in range(1, len(alts) + 1):
            for ctx in range(3):
                r2 = random.Random(zlib.crc32(("%s/%d/%d" % (nt, k, ctx)).encode()))
                starts = ["source"] + ([s for s in STARTS if path_to(s, nt) is not None] if ctx == 2 else [])
                start = r2.choice(starts)
                path = path_to(start, nt)
                if path is None:
                    continue
                st = {"i": 0, "hit": False}

                def choose(cur, allowed, b, alts_, path=path, st=st, nt=nt, k=k, r2=r2, ctx=ctx):
                    if not st["hit"] and st["i"] < len(path) and cur == path[st["i"]][0]:
                        st["i"] += 1
                        return path[st["i"] - 1][1]
                    if not st["hit"] and st["i"] == len(path) and cur == nt:
                        st["hit"] = True
                        return k
                    zero = [a for a in allowed if alts_[a - 1]["c"] == 0]
                    if ctx == 0:
                        return zero[0]
                    return r2.choice(zero)
                ch, toks = svgen.expand(start, 60, choose)
                if st["hit"]:
                    out.append((start, 60, ch, "%s#%d/%d" % (nt, k, ctx)))
    return out


def run(tier, seed):
    v = vlib.Verdict("C02", tier, seed)
    vlib.build_harness()
    rng = random.Random(seed)
    quick = tier == "quick"
    ders = []
    for st in STARTS:
        ex, r = vlib.tlc_export("MC_Grammar.tla", "MC_Grammar_%s_%s.cfg" % (st, "q" if quick else "t"), workers=4, timeout=1500)
        v.add_mc("MC_Grammar_" + st, r, "exhaustive derivations: %d sentences; BudgetOk, IdsDistinct" % len(ex))
        # TLC enumerates (and checks the generator invariants on) every derivation of the budget; the real parser is run
        # on all of them up to a cap per start symbol, beyond it on a seeded sample
        cap = 600 if quick else 30000
        if len(ex) > cap:
            rng.shuffle(ex)
            ex = ex[:cap]
        for e in ex:
            ders.append((e["start"], None, e["choices"], "exhaustive"))
    nexh = len(ders)
    sweep = class_sweep(rng)
    for (st, b, ch, note) in sweep:
        ders.append((st, b, ch, "sweep " + note))
    for i in range(400 if quick else 6000):
        st = "source" if rng.random() < 0.7 else rng.choice(STARTS)
        b = rng.randint(3, 14)
        ch, toks = svgen.random_derivation(rng, st, b)
        ders.append((st, b, ch, "seeded"))
    budgets = {}
    for st in STARTS:
        cfg = open("%s/MC_Grammar_%s_%s.cfg" % (vlib.SPECS, st, "q" if quick else "t")).read()
        budgets[st] = int(cfg.split("Budget = ")[1].split()[0])
    cases = []
    for i, (st, b, ch, note) in enumerate(ders):
        # layout: one blank between tokens; the sweep's second and third context and a third of the seeded derivations use a
        # tab / a newline / CRLF instead (what ends an escaped identifier, a number, a keyword)
        sep = " "
        if note.startswith("sweep") and note.endswith("/1"):
            sep = "\t"
        elif note.startswith("sweep") and note.endswith("/2"):
            sep = "\n"
        elif note == "seeded" and i % 3 == 0:
            sep = ["\t", "\n", "\r\n", "  "][(i // 3) % 4]
        c = build_case(str(i), st, b if b is not None else budgets[st], ch, sep)
        c["note"] = note
        cases.append(c)
    vlib.log("C02: %d sentences (%d exhaustive, %d sweep, rest seeded)" % (len(cases), nexh, len(sweep)))
    tracked = set(svgen.grammar()["tracked"])

    def execute(cs, unbounded=False):
        hcases = []
        for c in cs:
            call = {"fn": "two_step_sv_str", "path": "t.sv", "text": c["text"], "origins_of_leaves": True}
            if unbounded:
                call["memo_cap"] = None
            hcases.append({"id": c["id"], "calls": [call]})
        results = vlib.run_cases(hcases, tag="c02", limit_ms=60000)
        out = []
        for c, res in zip(cs, results):
            obs = svgen.observe(res["results"][0], tracked)
            # the host's own constructs are removed from the observed pairs (known wrapper)
            for hp in c["host"]:
                if hp in obs["pairs"]:
                    obs["pairs"].remove(hp)
            out.append({"id": c["id"], "start": c["start"], "budget": c["budget"], "choices": c["choices"], "toks": c["toks"], "offs": c["offs"], "obs": obs})
        return out
    # executed and validated in chunks: the raw results (trees with leaf origins) of several hundred thousand sentences
    # do not fit into memory at once
    used = set()
    bad = {}
    recs = []
    CH = 40000
    for k in range(0, len(cases), CH):
        part = execute(cases[k:k + CH])
        b, stats = vlib.tlc_validate("Grammar_Trace.tla", "Grammar_Trace.cfg", part, tag="c02", shards=8)
        v.add_tv("Grammar_Trace", stats, len(part))
        bad.update(b)
        recs = part if k + CH >= len(cases) else []          # the last chunk supplies the evidence samples
    by_id = {c["id"]: c for c in cases}
    if bad:
        # cross-property rule (DESIGN.md 2.4): an unexpected parser result is re-run once with an unbounded memo
        # table; if the discrepancy disappears it is a manifestation of the open C17 findings (D15), not of C02
        # ... only for the narrow signature of D15: a sentence REJECTED at the production capacity
        cand = [rid for rid in bad if any("is not accepted" in x for x in bad[rid])]
        again = execute([by_id[rid] for rid in cand], unbounded=True) if cand else []
        bad2, stats2 = vlib.tlc_validate("Grammar_Trace.tla", "Grammar_Trace.cfg", again, tag="c02u", shards=2) if again else ({}, None)
        if stats2:
            v.add_tv("Grammar_Trace[unbounded memo]", stats2, len(again))
        for rid in cand:
            if rid not in bad2:
                v.known_finding("D15", "parser result at the production memo capacity differs from the unbounded-memo result (memoised guarded failure)",
                                by_id[rid]["text"][:200], ["C17"])
                del bad[rid]
    for rid, reasons in bad.items():
        v.violation("%s sentence %r: %s" % (by_id[rid]["note"], by_id[rid]["text"][:300], "; ".join(reasons)[:500]),
                    {"text": by_id[rid]["text"], "start": by_id[rid]["start"], "choices": by_id[rid]["choices"]})
    # coverage of alternatives (vacuity guard): every alternative of the grammar used by some sentence
    g = svgen.grammar()
    allalts = {(nt, k) for nt, alts in g["prod"].items() for k in range(1, len(alts) + 1)}
    for c in cases:
        def choose(nt, allowed, b, alts, it=iter(c["choices"])):
            k = next(it)
            used.add((nt, k))
            return k
        svgen.expand(c["start"], c["budget"], choose)
    unused = sorted(allalts - used)
    if unused:
        raise vlib.ToolError("grammar alternatives never used by any generated sentence: %r" % unused[:10])
    v.cov["evaluations"] = len(cases)
    v.cov["distinct_nontrivial"] = len({c["text"] for c in cases})
    v.cov["grammar_alternatives"] = len(allalts)
    v.cov["grammar_alternatives_used"] = len(used)
    v.cov["exhaustive_sentences"] = nexh
    v.cov["samples"] = [{"sentence": c["text"], "expectation_from_spec": "recomputed by Grammar_Trace", "observed_pairs": r["obs"]["pairs"][:12]} for c, r in list(zip(cases[-len(recs):], recs))[-3:]]
    v.assumptions = ["Annex A subset and tracked node kinds of specs/Grammar.tla; PEG-order ambiguities are not generated (DESIGN.md C02)",
                     "rendering: one blank between tokens (trivia is C12's subject)"]
    return v.finish(rule="all derivations up to the growth budget per start symbol with collapsed lexical classes (TLC export), a sweep that uses every "
                         "alternative of every non-terminal in three contexts, and seeded deep derivations; non-trivial = distinct sentences", exhaustive=False)


def replay(path):
    print(json.dumps(json.load(open(path)), indent=1))
    return 0
