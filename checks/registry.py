"""Registry of the checks that are built (source of MANIFEST.json, see bin/mkmanifest)."""
HOOK_COMMITS = ["920ad1e", "37af8fe"]
NOTES = ("Model-based verification with explicit TLA+ specifications (specs/). Every check: cargo-builds the harness "
         "against /repo's working tree with --cfg sv_parser_verif, model-checks the design spec with TLC, derives cases "
         "from the spec (TLC export) and/or seeded generators, executes them in the real library in isolated worker "
         "processes and lets TLC validate the recorded traces. Exit 0 held / 1 VIOLATION / 2 tooling failure. "
         "Known genuine defects: known_findings.json (KNOWN-FINDING lines).")
NOT_APPLICABLE = {}
TRUST = "TLC and the Json community module; the renderer/tokeniser glue in lib/pp.py; the hook lines in /repo; bounded universes as stated in the evidence file"
CHECKS = {
 "C11": {"level": "model_checking", "design_ref": "DESIGN.md 4.2, 5 (C11), Appendix A.12-A.13",
         "technique": "TLA+ spec Preproc: ConcatEquiv model-checked with TLC over all pairs of programs of a mixed universe, returned table = declarative DefsRef over all conditional programs; TLC-exported and seeded file pairs/triples run file-by-file (table threaded through the harness) and concatenated in the real preprocessor; relation and tables validated by TLC (Preproc_Trace)",
         "text": "The define table returned by the real preprocessor is compared entry by entry (formals, default texts, body text, caller-supplied and value-less entries, SV_COV_* aside) with the table the specification computes, and feeding it into the run of the next file is compared with preprocessing the concatenation: same tokens, same final table, same error; the same relation is model-checked for every pair of model programs up to the bound.",
         "note": TRUST},
 "C18": {"level": "model_checking", "design_ref": "DESIGN.md 4.2, 5 (C18)",
         "technique": "TLA+ spec Preproc: StripOnlyComments/NoCommentLeft model-checked with TLC over all pairs of programs with comments in every position; exported and seeded programs run with strip_comments off and on in the real preprocessor; both runs and their relation validated by TLC (Preproc_Trace)",
         "text": "For every model program pair the stripped and unstripped runs of the specification agree on non-comment tokens, table and error and the stripped output has no comment; for the real library the same relation is checked on the two observed runs, and each run is also compared with the specification run carrying the flag, so flag threading through includes and expansions and comments that are the only separator between tokens are covered.",
         "note": TRUST},
 "C10": {"level": "model_checking", "design_ref": "DESIGN.md 4.2, 5 (C10), Appendix A.8-A.10",
         "technique": "TLA+ spec Preproc with a file-system model, model-checked with TLC against a big-step reference with declarative IEEE 22.4 resolution; TLC-exported file-system configurations and include graphs materialised on disk and run through the real preprocessor; traces validated by TLC (Preproc_Trace)",
         "text": "For every presence pattern of the target in {cwd,d1,d2} x every include-path order x ignore_include, and every include graph of the bound, the machine equals the reference in the model and the real library equals the machine on disk: file chosen (origin file of the spliced tokens), tokens, defines flowing in and out, Include{File{path}}, ReadUtf8 behind include levels, IncludeLine for 17 line placements, both quoting styles, macro-named files, same file twice, fan-out.",
         "note": TRUST},
 "C09": {"level": "model_checking", "design_ref": "DESIGN.md 4.2, 5 (C09)",
         "technique": "TLA+ spec Preproc with Limit=3 model-checked with TLC over all include/usage graphs (safety: depth and stack bounded, machine = big-step reference; liveness: Terminates under weak fairness; refutation of the unthreaded-counter design); graphs and chains/cycles scaled to the real limit replayed into the preprocessor in isolated processes and validated by TLC with Limit=64",
         "text": "Every who-uses/includes-whom graph over 3 files and 2 macros (macros may expand to includes) is model-checked for termination, bounded depth and exact error wrapping, then executed by the real library; chains of depth 1..130 and cycles of length 1..4 for macros, includes and macro-include mixes are executed and judged by TLC with the real limit: Ok with the expanded text up to 64 levels, ExceedRecursiveLimit under exactly the predicted Include wrappers beyond; a hang or stack overflow is an observable timeout/crash outcome that the trace spec rejects.",
         "note": TRUST},
 "C03": {"level": "model_checking", "design_ref": "DESIGN.md 4.3, 5 (C03)",
         "technique": "TLA+ spec Origins (B-tree with the overlapping-range ordering vs. pushed segments) model-checked with TLC; push/merge hook events of real runs replayed through it and every byte's origin(p) validated by TLC (Origins_Trace); token and blank-run origins of TLC-exported and seeded programs validated against Preproc (Preproc_Trace)",
         "text": "The origin data structure is decided exhaustively for all push/merge sequences of the bound (and the empty-push counterexample is re-derived by a refutation config); for real runs every output byte's reported origin is compared by TLC with the replayed map and with the pushed segments, every token with the specification's copied/expanded/synthesised tag (exact offset for copies), blank runs with the copy/expansion rules, and get_origin of tokens with origin(first byte).",
         "note": TRUST},
 "C05": {"level": "model_checking", "design_ref": "DESIGN.md 4.2, 5 (C05), Appendix A.3-A.5",
         "technique": "TLA+ spec Preproc (macro binding/substitution/pasting/rescan as a frame-stack machine) model-checked against a big-step IEEE 22.5.1 reference with TLC; TLC-exported define/usage programs and seeded larger ones replayed into the real preprocessor; traces validated by TLC (Preproc_Trace)",
         "text": "Every (formal list, body over a 10-token alphabet up to the stated length, argument list, redefinition) of the universe is model-checked (machine = big-step reference, surrounding text preserved) and replayed into the real preprocessor; seeded larger programs (up to 5 formals, nested brackets/strings/usages in actuals, nesting depth 3) are validated by the same trace specification: token sequence after pasting, error variant and payload, define table, origins. Known finding D2 is attributed through an exact deviation of the specification.",
         "note": TRUST},
 "C04": {"level": "model_checking", "design_ref": "DESIGN.md 4.2, 5 (C04)",
         "technique": "TLA+ spec Preproc (conditional-compilation machine) model-checked against a declarative IEEE 22.6 reference with TLC; TLC-exported programs replayed into the real preprocessor; traces validated by TLC (Preproc_Trace)",
         "text": "All well-nested conditional programs up to the stated size over names {A,B,__LINE__/__FILE__} x initial define tables are (a) model-checked: stack machine = declarative reference, dead code inert; (b) exported by TLC, rendered and executed by the real preprocessor, and every run's tokens, origins, returned table and error are validated by TLC against the spec. Exhaustive within the bound, nothing beyond it.",
         "note": TRUST},
}
