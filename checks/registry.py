"""Registry of the checks that are built (source of MANIFEST.json, see bin/mkmanifest)."""
HOOK_COMMITS = ["920ad1e", "37af8fe"]
NOTES = ("Model-based verification with explicit TLA+ specifications (specs/). Every check: cargo-builds the harness "
         "against /repo's working tree with --cfg sv_parser_verif, model-checks the design spec with TLC, derives cases "
         "from the spec (TLC export) and/or seeded generators, executes them in the real library in isolated worker "
         "processes and lets TLC validate the recorded traces. Exit 0 held / 1 VIOLATION / 2 tooling failure. "
         "Known genuine defects: known_findings.json (KNOWN-FINDING lines).")
NOT_APPLICABLE = {}
TRUST = "TLC and the Json community module; the renderer/tokeniser glue in lib/pp.py; the hook lines in /repo; bounded universes as stated in the evidence file"
CHECKS = {
 "C04": {"level": "model_checking", "design_ref": "DESIGN.md 4.2, 5 (C04)",
         "technique": "TLA+ spec Preproc (conditional-compilation machine) model-checked against a declarative IEEE 22.6 reference with TLC; TLC-exported programs replayed into the real preprocessor; traces validated by TLC (Preproc_Trace)",
         "text": "All well-nested conditional programs up to the stated size over names {A,B,__LINE__/__FILE__} x initial define tables are (a) model-checked: stack machine = declarative reference, dead code inert; (b) exported by TLC, rendered and executed by the real preprocessor, and every run's tokens, origins, returned table and error are validated by TLC against the spec. Exhaustive within the bound, nothing beyond it.",
         "note": TRUST},
}
