// svverif — executor that drives the real sv-parser library for the TLA+ conformance checks.
//
// `svverif worker` reads one JSON case per line on stdin and writes one JSON result per line on
// stdout (flushed after every line).  It is deliberately dumb: it materialises the case's file
// system, performs the requested calls on a fresh thread, and reports what the library
// returned (text, per-byte origins, define table, error, tree events, hook events).  All
// judgement is done by TLC on the trace built from these records.
//
// Process-level faults are data: a panic is reported as outcome "panic"; a stack overflow /
// abort kills the worker, and the driver attributes it to the case in flight.

use serde_json::{json, Map, Value};
use std::collections::HashMap;
use std::io::{BufRead, Write};
use std::path::{Path, PathBuf};
use std::sync::atomic::{AtomicU64, Ordering};
use std::sync::{Arc, Barrier, Mutex};
use sv_parser::{
    parse_lib, parse_lib_pp, parse_lib_str, parse_sv, parse_sv_pp, parse_sv_str, preprocess,
    preprocess_str, unwrap_locate, unwrap_node, Define, DefineText, Defines, Error, Locate,
    NodeEvent, PreprocessedText, RefNode, SyntaxTree,
};
use sv_parser_parser::verif;
use sv_parser_syntaxtree::{Iter, RefNodes};

mod node_match {
    use std::convert::TryFrom;
    use sv_parser::{Locate, RefNode};
    include!(concat!(env!("OUT_DIR"), "/node_match.rs"));
}
use node_match::{node_addr, try_locate, try_locate_addr, NODE_KIND_COUNT};

static CASE_START_MS: AtomicU64 = AtomicU64::new(0);
static CASE_LIMIT_MS: AtomicU64 = AtomicU64::new(0);

thread_local!(static PANIC_MSG: std::cell::RefCell<Option<String>> = std::cell::RefCell::new(None));
// results of the earlier calls of the current case (same thread): returned define table and text,
// so that a later call can be fed with them ("defines_from": i, "text_from": i)
// persistent text buffers of the current case thread: a raw entry point called with "buf": i parses the text
// out of buffer i, whose allocation (hence the text POINTER, which is part of the memo key) never changes
thread_local!(static BUFS: std::cell::RefCell<Vec<String>> = std::cell::RefCell::new(Vec::new()));
thread_local!(static SAVED: std::cell::RefCell<Vec<(Option<Defines>, Option<String>)>> = std::cell::RefCell::new(Vec::new()));

fn now_ms() -> u64 {
    use std::time::{SystemTime, UNIX_EPOCH};
    SystemTime::now().duration_since(UNIX_EPOCH).unwrap().as_millis() as u64
}

// ---------------------------------------------------------------------------------------------
// defines <-> JSON

fn defines_from_json(v: Option<&Value>) -> Defines {
    let mut d: Defines = HashMap::new();
    if let Some(Value::Array(a)) = v {
        for e in a {
            let name = e["name"].as_str().unwrap().to_string();
            if e.get("none").and_then(|x| x.as_bool()).unwrap_or(false) {
                d.insert(name, None);
                continue;
            }
            let mut args = Vec::new();
            if let Some(Value::Array(fa)) = e.get("args") {
                for f in fa {
                    let n = f[0].as_str().unwrap().to_string();
                    let dflt = f[1].as_str().map(|s| s.to_string());
                    args.push((n, dflt));
                }
            }
            let text = match e.get("body") {
                Some(Value::String(s)) => Some(DefineText::new(s.clone(), None)),
                _ => None,
            };
            d.insert(name.clone(), Some(Define::new(name, args, text)));
        }
    }
    d
}

fn defines_to_json(d: &Defines) -> Value {
    let mut names: Vec<&String> = d.keys().collect();
    names.sort();
    let mut out = Vec::new();
    for n in names {
        match &d[n] {
            None => out.push(json!({"name": n, "none": true})),
            Some(def) => {
                let args: Vec<Value> = def
                    .arguments
                    .iter()
                    .map(|(a, dv)| json!([a, dv]))
                    .collect();
                let (body, origin) = match &def.text {
                    Some(t) => (
                        Value::String(t.text.clone()),
                        match &t.origin {
                            Some((p, r)) => json!([p.to_string_lossy(), r.begin, r.end]),
                            None => Value::Null,
                        },
                    ),
                    None => (Value::Null, Value::Null),
                };
                out.push(json!({"name": n, "ident": def.identifier, "args": args, "body": body, "origin": origin}));
            }
        }
    }
    Value::Array(out)
}

// ---------------------------------------------------------------------------------------------
// errors

fn error_to_json(e: &Error) -> Value {
    match e {
        Error::Io(x) => json!({"kind": "Io", "msg": x.to_string()}),
        Error::File { path, source } => {
            json!({"kind": "File", "path": path.to_string_lossy(), "os": format!("{:?}", source.kind())})
        }
        Error::ReadUtf8(p) => json!({"kind": "ReadUtf8", "path": p.to_string_lossy()}),
        Error::Include { source } => json!({"kind": "Include", "inner": error_to_json(source)}),
        Error::Parse(x) => json!({"kind": "Parse", "loc": x.as_ref().map(|(p, o)| json!([p.to_string_lossy(), o]))}),
        Error::Preprocess(x) => {
            json!({"kind": "Preprocess", "loc": x.as_ref().map(|(p, o)| json!([p.to_string_lossy(), o]))})
        }
        Error::DefineArgNotFound(s) => json!({"kind": "DefineArgNotFound", "name": s}),
        Error::DefineNotFound(s) => json!({"kind": "DefineNotFound", "name": s}),
        Error::DefineNoArgs(s) => json!({"kind": "DefineNoArgs", "name": s}),
        Error::ExceedRecursiveLimit => json!({"kind": "ExceedRecursiveLimit"}),
        Error::IncludeLine => json!({"kind": "IncludeLine"}),
    }
}

// ---------------------------------------------------------------------------------------------
// preprocessed text

// run-length encoded origin map: [pos, n, path|null, off] — bytes pos..pos+n map to
// consecutive offsets off.. of `path` (null = no origin).
fn origins_to_json(t: &PreprocessedText) -> Value {
    let n = t.text().len();
    let mut runs: Vec<Value> = Vec::new();
    let mut cur: Option<(usize, usize, Option<String>, usize)> = None;
    for p in 0..n {
        let o = t.origin(p).map(|(pb, off)| (pb.to_string_lossy().to_string(), off));
        let extend = match (&cur, &o) {
            (Some((_, len, Some(cp), coff)), Some((np, noff))) => cp == np && *noff == coff + len,
            (Some((_, _, None, _)), None) => true,
            _ => false,
        };
        if extend {
            if let Some(c) = cur.as_mut() {
                c.1 += 1;
            }
        } else {
            if let Some((pos, len, path, off)) = cur.take() {
                runs.push(json!([pos, len, path, off]));
            }
            cur = Some(match o {
                Some((np, noff)) => (p, 1, Some(np), noff),
                None => (p, 1, None, 0),
            });
        }
    }
    if let Some((pos, len, path, off)) = cur.take() {
        runs.push(json!([pos, len, path, off]));
    }
    Value::Array(runs)
}

fn hooks_to_json(evs: Vec<verif::Event>, filter: &Option<Vec<String>>) -> Value {
    let mut out = Vec::new();
    for e in evs {
        if let Some(f) = filter {
            if !f.iter().any(|k| k == e.kind) {
                continue;
            }
        }
        out.push(json!({"k": e.kind, "seq": e.seq, "n": e.nums, "s": e.strs}));
    }
    Value::Array(out)
}

// ---------------------------------------------------------------------------------------------
// trees

struct NodeTable {
    ids: HashMap<(String, usize), usize>,
    kinds: Vec<String>,
    locs: Vec<Value>, // parallel to kinds: [off,len,line] for Locate nodes, null otherwise
    try_loc: Vec<Value>,
}

impl NodeTable {
    fn new() -> Self {
        NodeTable { ids: HashMap::new(), kinds: Vec::new(), locs: Vec::new(), try_loc: Vec::new() }
    }
    fn id(&mut self, n: &RefNode) -> usize {
        let kind = n.to_string();
        let addr = node_addr(n);
        // Locate::try_from asserts that a node's tokens are adjacent; a failing assertion is recorded per node
        // ("PANIC") instead of aborting the dump, so that the trace spec sees the whole tree
        let tl: Result<Result<Locate, ()>, ()> = std::panic::catch_unwind(std::panic::AssertUnwindSafe(|| try_locate(n))).map_err(|_| ());
        if let Some(i) = self.ids.get(&(kind.clone(), addr)) {
            return *i;
        }
        let i = self.kinds.len() + 1;
        self.ids.insert((kind.clone(), addr), i);
        self.kinds.push(kind);
        self.locs.push(match n {
            RefNode::Locate(l) => json!([l.offset, l.len, l.line]),
            _ => Value::Null,
        });
        self.try_loc.push(match tl {
            Ok(Ok(l)) => json!([l.offset, l.len, l.line]),
            Ok(Err(())) => Value::Null,
            Err(()) => json!([-1, -1, -1]),
        });
        i
    }
}

fn str_off(base: &str, s: Option<&str>) -> Value {
    match s {
        None => Value::Null,
        Some(x) => {
            let b = base.as_ptr() as usize;
            let p = x.as_ptr() as usize;
            json!([p as i64 - b as i64, x.len()])
        }
    }
}

// deterministic sample of node indices (positions in the Iter sequence)
fn sample_positions(n: usize, want: usize, seed: u64) -> Vec<usize> {
    if n <= want {
        return (0..n).collect();
    }
    let mut out = Vec::new();
    let mut x = seed.wrapping_mul(6364136223846793005).wrapping_add(1442695040888963407);
    let mut seen = std::collections::HashSet::new();
    out.push(0);
    seen.insert(0);
    while out.len() < want {
        x = x.wrapping_mul(6364136223846793005).wrapping_add(1442695040888963407);
        let p = ((x >> 33) as usize) % n;
        if seen.insert(p) {
            out.push(p);
        }
    }
    out.sort();
    out
}

fn dump_events<'a, I: Iterator<Item = NodeEvent<'a>>>(tab: &mut NodeTable, it: I) -> Vec<i64> {
    let mut ev = Vec::new();
    for e in it {
        match e {
            NodeEvent::Enter(n) => ev.push(tab.id(&n) as i64),
            NodeEvent::Leave(n) => ev.push(-(tab.id(&n) as i64)),
        }
    }
    ev
}

fn tree_to_json(tree: &SyntaxTree, text: &str, call: &Value) -> Value {
    let mut tab = NodeTable::new();
    let mut out = Map::new();
    let ev = dump_events(&mut tab, tree.into_iter().event());
    let nodes: Vec<RefNode> = tree.into_iter().collect();
    let it: Vec<usize> = nodes.iter().map(|n| tab.id(n)).collect();
    let want = call.get("probe_nodes").and_then(|x| x.as_u64()).unwrap_or(0) as usize;
    if want > 0 {
        let seed = call.get("seed").and_then(|x| x.as_u64()).unwrap_or(1);
        let mut probes = Vec::new();
        for p in sample_positions(nodes.len(), want, seed) {
            let n = &nodes[p];
            let id = tab.id(n);
            let sub: Vec<usize> = n.clone().into_iter().map(|m| tab.id(&m)).collect();
            let subev = dump_events(&mut tab, n.clone().into_iter().event());
            let gs = str_off(text, tree.get_str(vec![n.clone()]));
            let gst = str_off(text, tree.get_str_trim(vec![n.clone()]));
            let ul = unwrap_locate!(n.clone()).map(|l| json!([l.offset, l.len, l.line]));
            let un1 = unwrap_node!(n.clone(), SimpleIdentifier, EscapedIdentifier).map(|m| tab.id(&m));
            let un2 = unwrap_node!(n.clone(), Keyword, Symbol).map(|m| tab.id(&m));
            let un3 = unwrap_node!(n.clone(), WhiteSpace).map(|m| tab.id(&m));
            let un4 = unwrap_node!(n.clone(), Expression, Statement, ModuleIdentifier).map(|m| tab.id(&m));
            // the event view of an iterator that has already been advanced k times, and of an iterator over
            // several start nodes (the node followed by the next sampled one): Enter sequence = plain iteration
            let k = 1 + (p + seed as usize) % 3;
            let mut it1 = n.clone().into_iter();
            let mut it2 = n.clone().into_iter();
            for _ in 0..k {
                it1.next();
                it2.next();
            }
            let adv_rest: Vec<usize> = it1.map(|m| tab.id(&m)).collect();
            let adv_ev = dump_events(&mut tab, it2.event());
            let other = &nodes[(p * 7 + 3) % nodes.len()];
            let multi: RefNodes = vec![n.clone(), other.clone()].into();
            let multi_it: Vec<usize> = Iter::new(vec![n.clone(), other.clone()].into()).map(|m| tab.id(&m)).collect();
            let multi_ev = dump_events(&mut tab, Iter::new(multi).event());
            probes.push(json!({"pos": p, "id": id, "sub": sub, "subev": subev, "get_str": gs, "get_str_trim": gst,
                "unwrap_locate": ul, "unwrap": [un1, un2, un3, un4],
                "adv": k, "adv_rest": adv_rest, "adv_ev": adv_ev, "other": tab.id(other), "multi_it": multi_it, "multi_ev": multi_ev}));
        }
        out.insert("probes".into(), Value::Array(probes));
        out.insert(
            "unwrap_sets".into(),
            json!([["SimpleIdentifier", "EscapedIdentifier"], ["Keyword", "Symbol"], ["WhiteSpace"], ["Expression", "Statement", "ModuleIdentifier"]]),
        );
    }
    if call.get("origins_of_leaves").and_then(|x| x.as_bool()).unwrap_or(false) {
        let mut lo = Vec::new();
        for n in &nodes {
            if let RefNode::Locate(l) = n {
                lo.push(match tree.get_origin(l) {
                    Some((p, o)) => json!([l.offset, p.to_string_lossy(), o]),
                    None => json!([l.offset, Value::Null, 0]),
                });
            }
        }
        out.insert("leaf_origins".into(), Value::Array(lo));
    }
    if call.get("fmt").and_then(|x| x.as_bool()).unwrap_or(false) {
        let d = format!("{}", tree);
        let g = format!("{:?}", tree);
        out.insert("display_len".into(), json!(d.len()));
        out.insert("debug_len".into(), json!(g.len()));
        out.insert("display_lines".into(), json!(d.lines().count()));
    }
    out.insert("kinds".into(), json!(tab.kinds));
    out.insert("locs".into(), Value::Array(tab.locs));
    out.insert("try_loc".into(), Value::Array(tab.try_loc));
    out.insert("ev".into(), json!(ev));
    out.insert("iter".into(), json!(it));
    Value::Object(out)
}

// Locate triples in the order they appear in a derive(Debug) rendering
fn debug_locates(s: &str) -> Vec<Value> {
    let mut out = Vec::new();
    let pat = "Locate { offset: ";
    let mut rest = s;
    while let Some(i) = rest.find(pat) {
        rest = &rest[i + pat.len()..];
        let end = rest.find('}').unwrap_or(rest.len());
        let body = &rest[..end];
        let nums: Vec<i64> = body
            .split(|c: char| !c.is_ascii_digit())
            .filter(|x| !x.is_empty())
            .map(|x| x.parse().unwrap())
            .collect();
        if nums.len() == 3 {
            out.push(json!([nums[0], nums[2], nums[1]])); // off, len, line
        }
    }
    out
}

// ---------------------------------------------------------------------------------------------
// one call

fn get_bool(v: &Value, k: &str) -> bool {
    v.get(k).and_then(|x| x.as_bool()).unwrap_or(false)
}

fn pp_result_to_json(r: &Result<(PreprocessedText, Defines), Error>, call: &Value, out: &mut Map<String, Value>) {
    match r {
        Ok((t, d)) => {
            SAVED.with(|s| {
                if let Some(l) = s.borrow_mut().last_mut() {
                    *l = (Some(d.clone()), Some(t.text().to_string()));
                }
            });
            out.insert("outcome".into(), json!("ok"));
            out.insert("text".into(), json!(t.text()));
            if !get_bool(call, "no_origins") {
                out.insert("origins".into(), origins_to_json(t));
            }
            out.insert("defs".into(), defines_to_json(d));
        }
        Err(e) => {
            out.insert("outcome".into(), json!("err"));
            out.insert("err".into(), error_to_json(e));
        }
    }
}

fn parse_result_to_json(
    r: Result<(SyntaxTree, Defines), Error>,
    pptext: Option<String>,
    call: &Value,
    out: &mut Map<String, Value>,
) {
    match r {
        Ok((tree, d)) => {
            out.insert("outcome".into(), json!("ok"));
            out.insert("defs".into(), defines_to_json(&d));
            // the preprocessed text: recover it through get_str of the whole tree if not known
            let text: String = match pptext {
                Some(t) => t,
                None => String::new(),
            };
            if !get_bool(call, "no_tree") {
                // get_str of root for pointer base: use the text we know; when we do not know the
                // text (file entry points) the driver compares against the two-step run.
                let root: Vec<RefNode> = tree.into_iter().take(1).collect();
                let base: &str = match tree.get_str(root) {
                    Some(s) => s,
                    None => "",
                };
                out.insert("root_str".into(), json!(base));
                out.insert("tree".into(), tree_to_json(&tree, base, call));
            }
            if !text.is_empty() || get_bool(call, "want_text") {
                out.insert("text".into(), json!(text));
            }
        }
        Err(e) => {
            out.insert("outcome".into(), json!("err"));
            out.insert("err".into(), error_to_json(&e));
        }
    }
}

fn do_call(call: &Value) -> Value {
    SAVED.with(|s| s.borrow_mut().push((None, None)));
    let f = call["fn"].as_str().unwrap_or("");
    let path = call.get("path").and_then(|x| x.as_str()).unwrap_or("top.sv").to_string();
    let text_in = call.get("text").and_then(|x| x.as_str()).map(|s| s.to_string());
    let mut defs = defines_from_json(call.get("defines"));
    if let Some(i) = call.get("defines_from").and_then(|x| x.as_u64()) {
        if let Some(Some(d)) = SAVED.with(|s| s.borrow().get(i as usize).map(|x| x.0.clone())) {
            defs = d;
        }
    }
    let text_in = match call.get("text_from").and_then(|x| x.as_u64()) {
        Some(i) => SAVED.with(|s| s.borrow().get(i as usize).and_then(|x| x.1.clone())).or(text_in),
        None => text_in,
    };
    let incdirs: Vec<String> = call
        .get("incdirs")
        .and_then(|x| x.as_array())
        .map(|a| a.iter().map(|s| s.as_str().unwrap().to_string()).collect())
        .unwrap_or_else(Vec::new);
    let ign = get_bool(call, "ignore_include");
    let strip = get_bool(call, "strip_comments");
    let inc = get_bool(call, "allow_incomplete");
    let hooks = call.get("hooks").map(|h| match h {
        Value::Array(a) => Some(a.iter().map(|s| s.as_str().unwrap().to_string()).collect::<Vec<_>>()),
        _ => None,
    });
    if let Some(c) = call.get("memo_cap") {
        match c {
            Value::Null => verif::set_memo_capacity(None),
            Value::Number(n) => verif::set_memo_capacity(Some(n.as_u64().unwrap() as usize)),
            _ => {}
        }
    }
    verif::drain();
    verif::enable(hooks.is_some());
    let mut out = Map::new();
    let read_text = |p: &str| -> Option<String> { std::fs::read_to_string(p).ok() };
    match f {
        "preprocess" => {
            let r = preprocess(&path, &defs, &incdirs, strip, ign);
            pp_result_to_json(&r, call, &mut out);
        }
        "preprocess_str" => {
            let s = text_in.clone().or_else(|| read_text(&path)).unwrap_or_default();
            let r = preprocess_str(&s, &path, &defs, &incdirs, ign, strip, 0, 0);
            pp_result_to_json(&r, call, &mut out);
        }
        "parse_sv" => {
            let r = parse_sv(&path, &defs, &incdirs, ign, inc);
            parse_result_to_json(r, None, call, &mut out);
        }
        "parse_lib" => {
            let r = parse_lib(&path, &defs, &incdirs, ign, inc);
            parse_result_to_json(r, None, call, &mut out);
        }
        "parse_sv_str" => {
            let s = text_in.clone().or_else(|| read_text(&path)).unwrap_or_default();
            let r = parse_sv_str(&s, &path, &defs, &incdirs, ign, inc);
            parse_result_to_json(r, None, call, &mut out);
        }
        "parse_lib_str" => {
            let s = text_in.clone().or_else(|| read_text(&path)).unwrap_or_default();
            let r = parse_lib_str(&s, &path, &defs, &incdirs, ign, inc);
            parse_result_to_json(r, None, call, &mut out);
        }
        // two-step: preprocess(path) / preprocess_str(text) with strip_comments as given, then *_pp
        "two_step_sv" | "two_step_lib" | "two_step_sv_str" | "two_step_lib_str" => {
            let r = if f.ends_with("_str") {
                let s = text_in.clone().or_else(|| read_text(&path)).unwrap_or_default();
                preprocess_str(&s, &path, &defs, &incdirs, ign, strip, 0, 0)
            } else {
                preprocess(&path, &defs, &incdirs, strip, ign)
            };
            match r {
                Ok((t, d)) => {
                    let txt = t.text().to_string();
                    SAVED.with(|s| {
                        if let Some(l) = s.borrow_mut().last_mut() {
                            *l = (Some(d.clone()), Some(txt.clone()));
                        }
                    });
                    if get_bool(call, "want_origins") {
                        out.insert("origins".into(), origins_to_json(&t));
                    }
                    let r2 = if f.starts_with("two_step_sv") { parse_sv_pp(t, d, inc) } else { parse_lib_pp(t, d, inc) };
                    parse_result_to_json(r2, Some(txt.clone()), call, &mut out);
                    out.insert("text".into(), json!(txt));
                }
                Err(e) => {
                    out.insert("outcome".into(), json!("err"));
                    out.insert("err".into(), error_to_json(&e));
                    out.insert("stage".into(), json!("pp"));
                }
            }
        }
        // raw nom entry points on a given text (persistent buffer owned by the case)
        "raw_sv" | "raw_sv_incomplete" | "raw_lib" | "raw_lib_incomplete" | "raw_pp" => {
            let s = text_in.clone().unwrap_or_default();
            if let Some(bi) = call.get("buf").and_then(|x| x.as_u64()) {
                BUFS.with(|b| {
                    let mut b = b.borrow_mut();
                    while b.len() <= bi as usize {
                        b.push(String::with_capacity(1 << 20));
                    }
                    let buf = &mut b[bi as usize];
                    buf.clear();
                    buf.push_str(&s);
                    out.insert("buf_ptr".into(), json!(buf.as_ptr() as usize));
                    raw_call(f, buf.as_str(), call, &mut out);
                });
            } else {
                raw_call(f, &s, call, &mut out);
            }
        }
        _ => {
            out.insert("outcome".into(), json!("toolerror"));
            out.insert("msg".into(), json!(format!("unknown fn {}", f)));
        }
    }
    verif::enable(false);
    if let Some(filter) = hooks {
        out.insert("hooks".into(), hooks_to_json(verif::drain(), &filter));
    }
    if get_bool(call, "state") {
        let (d, v) = verif::thread_state();
        out.insert("state".into(), json!({"dir": d, "ver": v}));
    }
    Value::Object(out)
}

fn raw_call(f: &str, s: &str, call: &Value, out: &mut Map<String, Value>) {
    use sv_parser_parser::{lib_parser, lib_parser_incomplete, pp_parser, sv_parser, sv_parser_incomplete, Span, SpanInfo};
    let span = Span::new_extra(s, SpanInfo::default());
    fn finish<'a, T: std::fmt::Debug>(
        r: sv_parser_parser::IResult<Span<'a>, T>,
        to_ref: &dyn Fn(&T) -> Vec<Value>,
        call: &Value,
        out: &mut Map<String, Value>,
    ) {
        match r {
            Ok((rest, x)) => {
                out.insert("outcome".into(), json!("ok"));
                out.insert("rest_off".into(), json!(rest.location_offset()));
                out.insert("leaves".into(), Value::Array(to_ref(&x)));
                if get_bool(call, "debug_locs") {
                    out.insert("debug_locs".into(), Value::Array(debug_locates(&format!("{:?}", x))));
                }
            }
            Err(e) => {
                out.insert("outcome".into(), json!("err"));
                let pos = match e {
                    nom::Err::Incomplete(_) => None,
                    nom::Err::Error(e) => nom_greedyerror::error_position(&e),
                    nom::Err::Failure(e) => nom_greedyerror::error_position(&e),
                };
                out.insert("err".into(), json!({"kind": "Raw", "pos": pos}));
            }
        }
    }
    fn leaves<'a, I: Iterator<Item = RefNode<'a>>>(it: I) -> Vec<Value> {
        let mut v = Vec::new();
        for n in it {
            if let RefNode::Locate(l) = n {
                v.push(json!([l.offset, l.len, l.line]));
            }
        }
        v
    }
    match f {
        "raw_sv" => finish(sv_parser(span), &|x| leaves(x.into_iter()), call, out),
        "raw_sv_incomplete" => finish(sv_parser_incomplete(span), &|x| leaves(x.into_iter()), call, out),
        "raw_lib" => finish(lib_parser(span), &|x| leaves(x.into_iter()), call, out),
        "raw_lib_incomplete" => finish(lib_parser_incomplete(span), &|x| leaves(x.into_iter()), call, out),
        _ => finish(pp_parser(span), &|x| leaves(x.into_iter()), call, out),
    }
}

fn guarded_call(call: &Value) -> Value {
    PANIC_MSG.with(|m| *m.borrow_mut() = None);
    let r = std::panic::catch_unwind(std::panic::AssertUnwindSafe(|| do_call(call)));
    match r {
        Ok(v) => v,
        Err(p) => {
            verif::enable(false);
            let msg = PANIC_MSG.with(|m| m.borrow_mut().take()).unwrap_or_else(|| {
                if let Some(s) = p.downcast_ref::<&str>() {
                    s.to_string()
                } else if let Some(s) = p.downcast_ref::<String>() {
                    s.clone()
                } else {
                    "?".to_string()
                }
            });
            json!({"outcome": "panic", "msg": msg})
        }
    }
}

// ---------------------------------------------------------------------------------------------
// one case

fn write_files(root: &Path, files: &Value) {
    if let Value::Object(m) = files {
        for (rel, content) in m {
            let p = root.join(rel);
            if let Some(parent) = p.parent() {
                std::fs::create_dir_all(parent).unwrap();
            }
            match content {
                Value::String(s) => std::fs::write(&p, s.as_bytes()).unwrap(),
                Value::Object(o) => {
                    if o.get("dir").is_some() {
                        std::fs::create_dir_all(&p).unwrap();
                    } else if let Some(Value::Array(bytes)) = o.get("bytes") {
                        let b: Vec<u8> = bytes.iter().map(|x| x.as_u64().unwrap() as u8).collect();
                        std::fs::write(&p, b).unwrap();
                    } else if let Some(Value::String(t)) = o.get("symlink") {
                        let _ = std::os::unix::fs::symlink(t, &p);
                    }
                }
                _ => {}
            }
        }
    }
}

const STACK: usize = 512 << 20;

fn run_calls_on_fresh_thread(calls: Vec<Value>) -> Vec<Value> {
    std::thread::Builder::new()
        .stack_size(STACK)
        .spawn(move || {
            SAVED.with(|s| s.borrow_mut().clear());
            calls.iter().map(guarded_call).collect::<Vec<_>>()
        })
        .unwrap()
        .join()
        .unwrap_or_else(|_| vec![json!({"outcome": "panic", "msg": "thread died"})])
}

fn run_case(case: &Value, fsroot: &Path) -> Value {
    let id = case["id"].clone();
    let dir = fsroot.join("c");
    let _ = std::fs::remove_dir_all(&dir);
    std::fs::create_dir_all(&dir).unwrap();
    if let Some(files) = case.get("files") {
        write_files(&dir, files);
    }
    let cwd = match case.get("cwd").and_then(|x| x.as_str()) {
        Some(sub) => dir.join(sub),
        None => dir.clone(),
    };
    std::env::set_current_dir(&cwd).unwrap();
    let mut out = Map::new();
    out.insert("id".into(), id);
    if let Some(Value::Array(threads)) = case.get("threads") {
        // concurrent: each element is a list of calls; all threads start on a barrier
        let n = threads.len();
        let barrier = Arc::new(Barrier::new(n));
        let results: Arc<Mutex<Vec<Option<Vec<Value>>>>> = Arc::new(Mutex::new(vec![None; n]));
        let mut hs = Vec::new();
        for (i, t) in threads.iter().enumerate() {
            let calls: Vec<Value> = t.as_array().unwrap().clone();
            let b = barrier.clone();
            let res = results.clone();
            hs.push(
                std::thread::Builder::new()
                    .stack_size(STACK)
                    .spawn(move || {
                        b.wait();
                        let r: Vec<Value> = calls.iter().map(guarded_call).collect();
                        res.lock().unwrap()[i] = Some(r);
                    })
                    .unwrap(),
            );
        }
        for h in hs {
            let _ = h.join();
        }
        let r = results.lock().unwrap();
        let v: Vec<Value> = r
            .iter()
            .map(|x| match x {
                Some(v) => Value::Array(v.clone()),
                None => json!([{"outcome": "panic", "msg": "thread died"}]),
            })
            .collect();
        out.insert("threads".into(), Value::Array(v));
    } else if let Some(Value::Array(calls)) = case.get("calls") {
        if get_bool(case, "fresh_each") {
            let mut rs = Vec::new();
            for c in calls {
                rs.extend(run_calls_on_fresh_thread(vec![c.clone()]));
            }
            out.insert("results".into(), Value::Array(rs));
        } else {
            out.insert("results".into(), Value::Array(run_calls_on_fresh_thread(calls.clone())));
        }
    }
    std::env::set_current_dir("/").unwrap();
    let _ = std::fs::remove_dir_all(&dir);
    Value::Object(out)
}

fn worker(fsroot: PathBuf, limit_ms: u64) {
    std::fs::create_dir_all(&fsroot).unwrap();
    std::panic::set_hook(Box::new(|info| {
        let msg = format!("{}", info);
        PANIC_MSG.with(|m| *m.borrow_mut() = Some(msg));
    }));
    CASE_LIMIT_MS.store(limit_ms, Ordering::SeqCst);
    // watchdog: a case that exceeds its time limit ends the process with exit code 3 after
    // writing a timeout record for it.
    let cur_id: Arc<Mutex<Option<Value>>> = Arc::new(Mutex::new(None));
    {
        let cur_id = cur_id.clone();
        std::thread::spawn(move || loop {
            std::thread::sleep(std::time::Duration::from_millis(50));
            let st = CASE_START_MS.load(Ordering::SeqCst);
            let lim = CASE_LIMIT_MS.load(Ordering::SeqCst);
            if st != 0 && lim != 0 && now_ms() > st + lim {
                let id = cur_id.lock().unwrap().clone().unwrap_or(Value::Null);
                let so = std::io::stdout();
                let mut l = so.lock();
                let _ = writeln!(l, "{}", json!({"id": id, "timeout": true}));
                let _ = l.flush();
                std::process::exit(3);
            }
        });
    }
    let stdin = std::io::stdin();
    for line in stdin.lock().lines() {
        let line = match line {
            Ok(l) => l,
            Err(_) => break,
        };
        if line.trim().is_empty() {
            continue;
        }
        let case: Value = match serde_json::from_str(&line) {
            Ok(v) => v,
            Err(e) => {
                println!("{}", json!({"id": null, "toolerror": format!("bad json: {}", e)}));
                continue;
            }
        };
        *cur_id.lock().unwrap() = Some(case["id"].clone());
        if let Some(ms) = case.get("limit_ms").and_then(|x| x.as_u64()) {
            CASE_LIMIT_MS.store(ms, Ordering::SeqCst);
        } else {
            CASE_LIMIT_MS.store(limit_ms, Ordering::SeqCst);
        }
        CASE_START_MS.store(now_ms(), Ordering::SeqCst);
        let r = run_case(&case, &fsroot);
        CASE_START_MS.store(0, Ordering::SeqCst);
        let so = std::io::stdout();
        let mut l = so.lock();
        let _ = writeln!(l, "{}", r);
        let _ = l.flush();
    }
    let _ = std::fs::remove_dir_all(&fsroot);
}

fn main() {
    let args: Vec<String> = std::env::args().collect();
    if args.len() >= 2 && args[1] == "worker" {
        let fsroot = PathBuf::from(args.get(2).cloned().unwrap_or_else(|| "/verif/work/fs/0".to_string()));
        let limit: u64 = args.get(3).and_then(|x| x.parse().ok()).unwrap_or(20000);
        worker(fsroot, limit);
    } else if args.len() >= 2 && args[1] == "selfcheck" {
        // the generated match must agree with Display on at least the Locate variant
        let l = Locate { offset: 1, line: 2, len: 3 };
        let n = RefNode::Locate(&l);
        let (a, r) = try_locate_addr(&n);
        assert_eq!(a, &l as *const Locate as usize);
        assert_eq!(r, Ok(l));
        println!("selfcheck ok kinds={}", NODE_KIND_COUNT);
    } else {
        eprintln!("usage: svverif worker <fsroot> [limit_ms] | selfcheck");
        std::process::exit(2);
    }
}
