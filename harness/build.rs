// Generates `try_locate_addr(&RefNode)`: a match over every RefNode variant that returns the
// node's address and `Locate::try_from(node)`.  The variant list is recovered from the
// syntax-tree sources of /repo exactly as the crate's own build script does.
use std::fs;
use std::io::Write;
use std::path::Path;

fn walk(dir: &Path, out: &mut Vec<std::path::PathBuf>) {
    let mut ents: Vec<_> = fs::read_dir(dir).unwrap().map(|e| e.unwrap().path()).collect();
    ents.sort();
    for p in ents {
        if p.is_dir() {
            walk(&p, out);
        } else if p.extension().map(|e| e == "rs").unwrap_or(false) {
            out.push(p);
        }
    }
}

fn main() {
    let src = Path::new("/repo/sv-parser-syntaxtree/src");
    println!("cargo:rerun-if-changed=/repo/sv-parser-syntaxtree/src");
    let mut files = Vec::new();
    walk(src, &mut files);
    let mut names = Vec::new();
    for f in files {
        let text = fs::read_to_string(&f).unwrap();
        let mut hit = false;
        for line in text.lines() {
            if hit {
                if let Some(n) = line.split_whitespace().nth(2) {
                    names.push(n.replace("<'a>", ""));
                }
                hit = false;
            }
            let t = line.trim_start();
            if t.starts_with("#[derive") && t.contains("Node") && !t.contains("RefNode") && !t.contains("AnyNode") {
                hit = true;
            }
        }
    }
    let out_dir = std::env::var("OUT_DIR").unwrap();
    let mut o = fs::File::create(Path::new(&out_dir).join("node_match.rs")).unwrap();
    writeln!(o, "pub fn node_addr<'a>(n: &RefNode<'a>) -> usize {{ match n {{").unwrap();
    writeln!(o, "RefNode::Locate(x) => *x as *const Locate as usize,").unwrap();
    for n in &names {
        writeln!(o, "RefNode::{}(x) => *x as *const _ as *const u8 as usize,", n).unwrap();
    }
    writeln!(o, "}} }}").unwrap();
    writeln!(o, "pub fn try_locate<'a>(n: &RefNode<'a>) -> Result<Locate, ()> {{ match n {{").unwrap();
    writeln!(o, "RefNode::Locate(x) => Ok(**x),").unwrap();
    for n in &names {
        writeln!(o, "RefNode::{}(x) => Locate::try_from(*x),", n).unwrap();
    }
    writeln!(o, "}} }}").unwrap();
    writeln!(o, "pub fn try_locate_addr<'a>(n: &RefNode<'a>) -> (usize, Result<Locate, ()>) {{ (node_addr(n), try_locate(n)) }}").unwrap();
    writeln!(o, "pub const NODE_KIND_COUNT: usize = {};", names.len() + 1).unwrap();
}
